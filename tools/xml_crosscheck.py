#!/usr/bin/env python3
"""Cross-check of the simulator's XML well-formedness scanner (sim/src/xmlcheck.rs) against expat.

usage: tools/xml_crosscheck.py <sim-binary> [N]
Generates N documents (real XML outputs of cteepbd and randomly damaged copies) with
`cteepbd-sim xmlgen`, parses each with Python's expat and compares the verdicts.
Exit 0 iff the verdicts agree on every document (DOCTYPE is not generated).
"""
import os, shutil, subprocess, sys, tempfile
import xml.parsers.expat as expat

sim = sys.argv[1]
n = sys.argv[2] if len(sys.argv) > 2 else "4000"
d = tempfile.mkdtemp(prefix="xmlx-", dir="/dev/shm")
try:
    subprocess.run([sim, "xmlgen", d, "--runs", n], check=True, stdout=subprocess.DEVNULL)
    agree = ok = bad = 0
    disagreements = []
    for line in open(os.path.join(d, "verdicts.txt"), encoding="utf-8"):
        i, verdict, *rest = line.rstrip("\n").split(" ", 2)
        data = open(os.path.join(d, i + ".xml"), "rb").read()
        p = expat.ParserCreate("utf-8")
        try:
            p.Parse(data, True)
            ev = "ok"
        except expat.ExpatError as e:
            ev = "bad"
            emsg = str(e)
        if ev == verdict:
            agree += 1
            ok += ev == "ok"
            bad += ev == "bad"
        else:
            disagreements.append((i, verdict, rest, ev, emsg if ev == "bad" else ""))
    print(f"documents={agree+len(disagreements)} agree={agree} (well-formed {ok}, not well-formed {bad}) disagree={len(disagreements)}")
    for x in disagreements[:20]:
        print("DISAGREE", x)
    sys.exit(0 if not disagreements else 1)
finally:
    shutil.rmtree(d, ignore_errors=True)
