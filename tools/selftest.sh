#!/usr/bin/env bash
# Determinism self-test of the simulator (DESIGN §3.7): the campaign digest of every property must be
# identical (a) when repeated, (b) with 1, 5 and 16 workers, in separate processes.
set -u
SIM="$1"; SUT="$2"; SHIM="$3"
RUNS="${SELFTEST_RUNS:-3000}"
rc=0
for P in C05 C06 C10 C16 C17 C18; do
  ARGS=()
  case "$P" in C05|C10|C16|C17|C18) ARGS=(--sut-release "$SUT" --shim "$SHIM");; esac
  ref=""
  for W in 16 1 5 16; do
    out=$("$SIM" digest "$P" --runs "$RUNS" --workers "$W" "${ARGS[@]}" 2>&1 | tail -1)
    d="${out%% *}"
    echo "$P workers=$W -> $out"
    if [ -z "$ref" ]; then ref="$d"; elif [ "$d" != "$ref" ]; then echo "NONDETERMINISM: $P digest $d != $ref"; rc=2; fi
  done
  for S in 2 3; do
    a=$(VERIF_SEED=$S "$SIM" digest "$P" --runs 1000 --workers 16 "${ARGS[@]}" 2>&1 | tail -1)
    b=$(VERIF_SEED=$S "$SIM" digest "$P" --runs 1000 --workers 7 "${ARGS[@]}" 2>&1 | tail -1)
    [ "${a%% *}" = "${b%% *}" ] || { echo "NONDETERMINISM: $P seed $S: $a vs $b"; rc=2; }
    [ "${a%% *}" != "$ref" ] || { echo "SEED-INSENSITIVE: $P seed $S gives the digest of seed 1"; rc=2; }
  done
done
[ $rc -eq 0 ] && echo "selftest ok: digests independent of worker count and repetition, dependent on VERIF_SEED"
exit $rc
