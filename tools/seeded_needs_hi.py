import json, os
needs = {
 "C05h-1": "combination of two features: EAMBIENTE and TERMOSOLAR completed in one pass per system, 'no imbalance' became `continue 'systems`; a system whose ambient heat is fully covered never gets its solar thermal use completed",
 "C05h-2": "rare coincidence: early exit when the f32 annual sums of covered and total use are equal; a per-step shortfall below half an ulp of the running total (0.05 kWh in the last hour of 8760 x 150 kWh; 0.5 kWh next to 16 777 216 kWh) is not completed",
 "C05h-3": "file size: texts of 1 MiB or more are parsed in 4 parallel blocks of len/4 lines; the last len%4 data lines (of any kind) are dropped silently",
 "C06h-1": "combination of two features: the annual fallback share is zeroed for services without CONSUMO; needs a SALIDA line for a service the system does not consume for AND a step where all outputs are zero while AUX is not",
 "C06h-2": "input shape: entry-API clean-up counts the first SALIDA line of each service twice; a multi-service system where one service has several SALIDA lines and another has one gets wrong proportions (totals conserved)",
 "C06h-3": "specific comment tag: AUX of a system is left out of the electricity balance when an electricity CONSUMO line of that system carries `CTEEPBD_AUX` in its comment (assignment right, kWh not counted)",
 "C10h-1": "hash order + tie: at zero-output steps AUX goes to the service with the largest annual output, found with max_by over a HashMap; two services with exactly equal annual outputs: the per-service breakdown varies between runs, headline identical",
 "C10h-2": "hash order + input shape: `?` in the per-system completion loop leaves the function at the first already-balanced system; systems visited later are not completed (produced / delivered figures move, headline identical)",
 "C10h-3": "line split: the biomass DHW helper takes only the first SALIDA, ACS line of a system; splitting that line (and reordering the parts) changes the DHW renewable fraction",
 "C16h-1": "specific text: escape_xml keeps existing references; `&#` without a later `;` in a comment or metadata value makes the XML writer spin forever (hang, no allocation)",
 "C16h-2": "debug profile only: with -v the count of components added by the program is len - declared, which underflows when AUX reassignment removes lines (more AUX lines than SALIDA services); release wraps silently",
 "C16h-3": "two cooperating sites: write errors deferred to a final exit, but the early return for 'no component data' skips it; --of / --oc to a path that cannot be created ends with exit 0 and only a message on stderr",
 "C17h-1": "unusual value: 'no negative zero' helper (-0.05 < v < 0 -> 0.0) applied to two-decimal figures; a value in (-0.05, -0.005) per m2 is printed 0.00 while the JSON says -0.033",
 "C17h-2": "hash order + size: components sorted by id with sort_unstable_by_key; with more than 32 components and >=2 systems completed automatically the order of same-id lines (XML, JSON) varies between runs",
 "C17h-3": "input shape: Components deserialisation now requires DEMANDA vectors of the same length as the energy lines; the JSON of a building with an annual DEMANDA next to monthly data cannot be read back",
 "C18h-1": "two-step sequence + option: an existing CTE_RED1/CTE_RED2 metadata item is no longer refreshed by a --red1/--red2 override; the saved components file keeps the stale factor, which overrides the saved factor file on re-read",
 "C18h-2": "generation count: a user RED factor that replaces a factor defined in the file appends ' (Factor de usuario)' to its comment at every reading; the comment grows with each save / re-read",
 "C18h-3": "hash order across incarnations: single-EPB-service shortcut picks from the unfiltered HashSet; one EPB service plus NEPB/COGEN use: the AUX service flips between CAL and NEPB between the original reading and the read-back",
 "C05i-1": "unusual ids: shared parse_id() reads the id as f32 and casts; ids above 2^24 (16777217) collapse onto their neighbour and two systems merge, one's surplus covering the other's use",
 "C05i-2": "specific comment tag + shape: is_aux() also true for an ELECTRICIDAD CONSUMO tagged CTEEPBD_AUX / CTEEPBD_EXCLUYE_AUX_ACS; the AUX reassignment's retain() then deletes that declared line in a system with >=2 services",
 "C05i-3": "disk history / specific comment: normalize() first removes EAMBIENTE/TERMOSOLAR productions carrying the tool's balancing comment and recomputes them; a declared surplus with that comment is lost",
 "C06i-1": "input shape: veclistsum rewritten as pairwise summation drops partial sums when the even part is not a power of two; a multi-service system with 6, 7 or 10-15 AUX lines loses whole lines",
 "C06i-2": "input shape: normalize() drops all-zero components first; a system whose CONSUMO for one service is zero in every step (free cooling) while its SALIDA is not looks single-service and all AUX goes to the other service",
 "C06i-3": "two-step sequence: lines carrying an automatic comment are dropped on reading; the reassigned AUX lines of a file saved with --oc are the only record of the declared auxiliaries",
 "C10i-1": "line order / split + threshold: the DHW indicator's abs() < 0.01 tests became < f32::EPSILON; a 1e-5 residue that depends on the order or the split of >=2 AUX lines flips 0.967 into an error",
 "C10i-2": "hash order: the DHW demand covered by nearby carriers is capped inside a hash-map loop; TERMOSOLAR 70 + RED1 50 against a demand of 100 gives 0.700 or 0.500 depending on the run",
 "C10i-3": "line split + magnitude: each PRODUCCION line is clipped at 1e-3 kWh before accumulation; production of about a Wh per step spread over two lines vanishes - needs values below the 0.01 kWh grid of the generator (see 9.3)",
 "C16i-1": "specific byte: Display for EpbdError cuts the echoed detail with &detail[..200]; a rejected line longer than 200 bytes with a multi-byte character across byte 200 panics when the error is printed",
 "C16i-2": "option value: StrictUtf8 removed, -c/-f read with value_of_os; a numeric option value that is not valid UTF-8 (-a 100\\xa0) panics inside clap",
 "C16i-3": "I/O fault at a particular point: JSON streamed through a BufWriter that is never flushed; a write error that hits only the last block (< 8 KiB) is discarded in drop: truncated document, exit 0",
 "C17i-1": "extreme magnitude: JSON rounding through an i64 count of thousandths saturates above 9.22e15; a weighted figure of 2e16 is stated as 9.223372e15 and reads back as that",
 "C17i-2": "specific text: escape_xml no longer escapes '>'; a comment containing `]]>` makes the XML ill-formed",
 "C17i-3": "special value: value_or_dash uses is_normal(); a declared demand whose total is exactly 0.0 is printed as '-' in the text while the JSON says 0.0",
 "C18i-1": "specific text: new line-continuation feature removes backslash + newline before splitting lines; a comment or metadata value ending in a backslash swallows the next line of a saved file on re-read",
 "C18i-2": "input shape: #META lines de-duplicated with dedup_by_key on write-out; adjacent metadata lines with the same key (a note that spans lines) lose all but the first",
 "C18i-3": "specific text + generation count: shared split_comment tolerates a doubled marker by stripping one extra '#'; a comment that starts with three or more '#' loses one marker per save / re-read generation",
}
for sid, text in needs.items():
    p = os.path.join(os.path.dirname(os.path.dirname(os.path.abspath(__file__))), "seeded", sid, "meta.json")
    if os.path.exists(p):
        m = json.load(open(p)); m["needs_to_manifest"] = text
        json.dump(m, open(p, "w"), indent=1, ensure_ascii=False)
print("ok")
