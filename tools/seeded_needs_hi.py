import json, os
needs = {
 "C05h-1": "combination of two features: EAMBIENTE and TERMOSOLAR completed in one pass per system, 'no imbalance' became `continue 'systems`; a system whose ambient heat is fully covered never gets its solar thermal use completed",
 "C05h-2": "rare coincidence: early exit when the f32 annual sums of covered and total use are equal; a per-step shortfall below half an ulp of the running total (0.05 kWh in the last hour of 8760 x 150 kWh; 0.5 kWh next to 16 777 216 kWh) is not completed",
 "C05h-3": "file size: texts of 1 MiB or more are parsed in 4 parallel blocks of len/4 lines; the last len%4 data lines (of any kind) are dropped silently",
 "C06h-1": "combination of two features: the annual fallback share is zeroed for services without CONSUMO; needs a SALIDA line for a service the system does not consume for AND a step where all outputs are zero while AUX is not",
 "C06h-2": "input shape: entry-API clean-up counts the first SALIDA line of each service twice; a multi-service system where one service has several SALIDA lines and another has one gets wrong proportions (totals conserved)",
 "C06h-3": "specific comment tag: AUX of a system is left out of the electricity balance when an electricity CONSUMO line of that system carries `CTEEPBD_AUX` in its comment (assignment right, kWh not counted)",
 "C10h-1": "hash order + tie: at zero-output steps AUX goes to the service with the largest annual output, found with max_by over a HashMap; two services with exactly equal annual outputs: the per-service breakdown varies between runs, headline identical",
 "C10h-2": "hash order + input shape: `?` in the per-system completion loop leaves the function at the first already-balanced system; systems visited later are not completed (produced / delivered figures move, headline identical)",
 "C10h-3": "line split: the biomass DHW helper takes only the first SALIDA, ACS line of a system; splitting that line (and reordering the parts) changes the DHW renewable fraction",
 "C16h-1": "specific text: escape_xml keeps existing references; `&#` without a later `;` in a comment or metadata value makes the XML writer spin forever (hang, no allocation)",
 "C16h-2": "debug profile only: with -v the count of components added by the program is len - declared, which underflows when AUX reassignment removes lines (more AUX lines than SALIDA services); release wraps silently",
 "C16h-3": "two cooperating sites: write errors deferred to a final exit, but the early return for 'no component data' skips it; --of / --oc to a path that cannot be created ends with exit 0 and only a message on stderr",
 "C17h-1": "unusual value: 'no negative zero' helper (-0.05 < v < 0 -> 0.0) applied to two-decimal figures; a value in (-0.05, -0.005) per m2 is printed 0.00 while the JSON says -0.033",
 "C17h-2": "hash order + size: components sorted by id with sort_unstable_by_key; with more than 32 components and >=2 systems completed automatically the order of same-id lines (XML, JSON) varies between runs",
 "C17h-3": "input shape: Components deserialisation now requires DEMANDA vectors of the same length as the energy lines; the JSON of a building with an annual DEMANDA next to monthly data cannot be read back",
 "C18h-1": "two-step sequence + option: an existing CTE_RED1/CTE_RED2 metadata item is no longer refreshed by a --red1/--red2 override; the saved components file keeps the stale factor, which overrides the saved factor file on re-read",
 "C18h-2": "generation count: a user RED factor that replaces a factor defined in the file appends ' (Factor de usuario)' to its comment at every reading; the comment grows with each save / re-read",
 "C18h-3": "hash order across incarnations: single-EPB-service shortcut picks from the unfiltered HashSet; one EPB service plus NEPB/COGEN use: the AUX service flips between CAL and NEPB between the original reading and the read-back",
}
for sid, text in needs.items():
    p = os.path.join(os.path.dirname(os.path.dirname(os.path.abspath(__file__))), "seeded", sid, "meta.json")
    if os.path.exists(p):
        m = json.load(open(p)); m["needs_to_manifest"] = text
        json.dump(m, open(p, "w"), indent=1, ensure_ascii=False)
print("ok")
