#!/usr/bin/env bash
# Runs checks against an independently written *property-preserving* change and files it under benign/<id>/.
#   tools/validate_benign.sh <dir-with-patch.diff> <id> <PROP> [<PROP>...]
set -u
SRC="$(readlink -f "$1")"; ID="$2"; shift 2; PROPS=("$@")
VERIF="$(cd "$(dirname "$0")/.." && pwd)"
LOG="/tmp/val-logs/$ID"; rm -rf "$LOG"; mkdir -p "$LOG"
cd "$VERIF"
"$VERIF/tools/try_mutant.sh" "benign-$ID" "$SRC/patch.diff" --tests "${PROPS[@]}" 2>&1 | grep "^MUTANT" | tee "$LOG/checks.txt"
D="$VERIF/benign/$ID"; rm -rf "$D"; mkdir -p "$D"
cp "$SRC/patch.diff" "$D/"; [ -f "$SRC/README.md" ] && cp "$SRC/README.md" "$D/"
python3 - "$D" "$ID" "$LOG/checks.txt" <<'PY'
import json, sys, re
d, sid, checks = sys.argv[1:]
results = {}
for line in open(checks):
    m = re.match(r"MUTANT \S+ (\S+) rc=(\d) ?(.*)", line.strip())
    if m: results[m.group(1)] = {"rc": int(m.group(2)), "detail": m.group(3)[:300]}
alarms = sorted(p for p, r in results.items() if p.startswith("C") and r["rc"] == 1)
meta = {"id": sid,
 "kind": "bold property-preserving change written by an independent sub-agent given only the property text (%s) and a scratch worktree (third round)" % sid[:3],
 "expected": "every check exits 0 (no false alarm)",
 "what_was_run": "tools/try_mutant.sh <id> patch.diff --tests <checks> (scratch worktree + scratch simulator; quick tier, VERIF_SEED=1)",
 "results": results, "alarms": alarms}
json.dump(meta, open(d + "/meta.json", "w"), indent=1, ensure_ascii=False)
print("BENIGN", sid, "alarms =", alarms, "tests:", results.get("tests"))
PY
