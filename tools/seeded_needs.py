import json, os
needs = {
 "C05a-1": "hash order: completion loop stops (map_while) at the first system already covered by declared production; needs >=2 systems on one carrier, one covered, one not, and a HashSet order visiting the covered one first (~58% of parses)",
 "C05a-2": "input shape: early return when the file has no EAMBIENTE line at all, so TERMOSOLAR use is never completed (boiler + solar panels)",
 "C05a-3": "fault: CLI readfile() stops silently at a line with a non-UTF-8 byte or at an EIO on a later read() and evaluates the truncated file with exit 0",
 "C05b-1": "input shape: signed annual sum instead of per-step positive part; needs >=2 steps, a deficit in one step and annual production >= annual use",
 "C05b-2": "hash order + two sites: a balance buffer reused across systems is not reset on the 'no imbalance' continue; a surplus system visited first shrinks the next system's completion (~56% of parses)",
 "C05b-3": "line order: ids collected from use lines in file order with dedup() and no sort; interleaved ids (1,2,1,2 or legacy lines around another system) are completed twice",
 "C06a-1": "hash order: 'exactly one EPB service' shortcut picks the service from the unfiltered HashSet; a system with one EPB service plus NEPB/COGEN use gets its AUX on NEPB/COGEN in about half of the parses",
 "C06a-2": "input shape + line order: only the last SALIDA line of a service counts (collect into HashMap); needs >=2 SALIDA lines of one service in a multi-service system with AUX; totals are conserved",
 "C06a-3": "input shape, CLI path: Factors::strip forgets AUX when collecting carriers; AUX as the only electricity loses the electricity factors and the evaluation fails with a missing factor",
 "C06b-1": "input shape: is_normal() NaN guard treats a 0 share as abnormal and substitutes the annual share; needs a step where one service has zero output and another does not",
 "C06b-2": "input shape: last SALIDA line of an (id, service) wins (iterator refactor); needs two SALIDA lines with the same id and service",
 "C06b-3": "hash order + two sites: condition counts EPB services, the next line takes the first element of the unfiltered HashSet; one EPB service + NEPB/COGEN use: wrong in ~49% of parses",
 "C10a-1": "hash order: the SALIDA-by-service map is created once before the loop over systems and never cleared; needs >=2 systems each with AUX and >=2 services with SALIDA",
 "C10a-2": "line order: Vec of ids in file order + dedup(); interleaved ids are visited twice, missing production added twice; weighted totals cancel, only produced/exported figures move",
 "C10a-3": "layout: BOM stripped per data line but the #META filter sees unstripped lines; a file with a BOM whose first line is #META loses that metadata item (area falls back to 1.0 in the CLI)",
 "C10b-1": "line split / order: only the first SALIDA line of an (id, service) is taken in magnitude, later ones are added with sign; needs REF declared in >=2 SALIDA lines in a multi-service system with AUX",
 "C10b-2": "hash order: 'no imbalance' continue became return; first already-balanced system stops completion for all systems not yet visited",
 "C10b-3": "unusual ids: shared parse_system_id() goes through f32; distinct ids above 2^24 (20000000/20000001) collapse and two systems merge",
 "C16a-1": "line order + input shape: has_service() evaluated before is_out() reaches unreachable!() on a PRODUCCION component in the DHW indicator; needs DEMANDA ACS, biomass for ACS, a non-nearby ACS carrier and a same-id PRODUCCION before the SALIDA line",
 "C16a-2": "stored-data fault at a particular place: step-count check moved after the completion; a wrong-length EAMBIENTE/TERMOSOLAR line in a system with both use and declared production trips assert_eq! in vecops",
 "C16a-3": "I/O fault at a particular point: BufWriter with flush().unwrap(); a write error (ENOSPC/EIO/EDQUOT) on an output smaller than 8 KiB panics instead of exit 74",
 "C16b-1": "input shape: guard order has_id && has_service(ACS) && is_out reaches unreachable!() for a PRODUCCION with the biomass system's id (also the automatic one)",
 "C16b-2": "stored-data fault at a particular place: length check moved to the end of normalize(); mismatching EAMBIENTE/TERMOSOLAR or SALIDA lengths reach asserting vector helpers",
 "C16b-3": "unusual metadata, two sites: CTE_RED1/CTE_RED2 metadata with one or two numbers is indexed vv[2] through a closure shared with the clap-validated option",
 "C17a-1": "disk history: File::create replaced by OpenOptions without truncate; a longer pre-existing file at the output path leaves a stale tail (malformed XML, invalid JSON)",
 "C17a-2": "large values: round_serialize_3 through `as i32` saturates at |x| >= 2 147 483.648; the JSON of a large building states wrong numbers and does not read back equal",
 "C17a-3": "hash order: the RenNrenCo2 table helper lost its sort; the two 'por servicio' primary-energy tables vary between runs for >=2 services",
 "C17b-1": "exotic text: escape_xml leaves '&' untouched when followed by [A-Za-z0-9#]+; ('I&D;', '&#0;'): undeclared entity / illegal reference in the XML",
 "C17b-2": "hash order + ties: tables sorted by value (stable); rows with exactly equal values keep hash order and vary between runs",
 "C17b-3": "disk history: writefile without truncation; needs a longer file already at the output path",
 "C18a-1": "disk history: --oc/--of written without truncation over a longer pre-existing file; the saved files carry a stale tail",
 "C18a-2": "hash order: completion loop returns at the first balanced system; a parse that skipped a completion gains PRODUCCION lines after write-out/read-back (~1 in 4 round trips)",
 "C18a-3": "two-incarnation history: CTE_AREAREF/CTE_KEXP metadata kept as found when already present; an override by -a/-k is not stored, the saved file re-evaluates with the stale value",
 "C18b-1": "input shape: Display skips components whose values sum to zero; a system's only CONSUMO of a service disappears and the AUX split changes on re-read",
 "C18b-2": "hash order across incarnations: at zero-output steps AUX goes to out_services.first() (HashMap key order); the saved AUX line has no service so the split is recomputed under another order",
 "C18b-3": "two-incarnation history + option combination: CTE_KEXP stored only when != default; file says 1.0, --kexp 0 given: the saved file keeps the stale 1.0",
}
for sid, text in needs.items():
    f = "/verif/seeded/%s/meta.json" % sid
    if os.path.exists(f):
        m = json.load(open(f)); m["needs_to_manifest"] = text; json.dump(m, open(f, "w"), indent=1, ensure_ascii=False)
print("ok")
needs2 = {
 "C05c-1": "input content: normalize first deletes every EAMBIENTE/TERMOSOLAR production whose comment equals the tool's own completion text; a declared line carrying that comment (as in any file saved with --oc) is dropped and its surplus lost",
 "C05c-2": "input shape: BuildingNeeds::add assigns instead of adding; needs >=2 DEMANDA lines of one service",
 "C05c-3": "input shape, two sites: single pass over (carrier, id) filters use by carrier but production only by id; one system with both carriers and a declared production gets too little completion",
 "C06c-1": "hash order: zero-AUX guard returns instead of continuing; an all-zero AUX multi-service system visited first leaves every other system's AUX on NEPB (11 different C_ep values over 30 identical CLI runs)",
 "C06c-2": "input shape + hash order: 'last service takes the remainder' with a wrong running remainder; identical for <=2 output services, inflated last share for >=3",
 "C06c-3": "input shape, two sites: shares created only for services with a CONSUMO line while fractions use all SALIDA services; the share of an output-only service is lost",
 "C16c-1": "input shape (+ hash order for the exit status): early break in the electricity priority loop leaves EL_COGEN without an entry that is indexed later; needs EL_INSITU and EL_COGEN with PV covering all EPB electricity use",
 "C16c-2": "stored-data fault at a particular place: f32::clamp(0, use) asserts min <= max; a negative or NaN EAMBIENTE/TERMOSOLAR use with declared production of the same system panics",
 "C16c-3": "option + input combination: -vv metadata listing pads by chars().count() but subtracts len(); a non-ASCII metadata key longer in bytes than the longest key in chars underflows",
 "C17c-1": "exotic text: XML filter lets U+FFFE / U+FFFF through",
 "C17c-2": "unusual result: BalDel::grid_by_cr gets skip_serializing_if without default; when nothing is delivered by the grid the JSON cannot be read back",
 "C17c-3": "unusual value: value_or_dash prints '-' for a demand that is zero or negative while JSON says 0.0 / -15.0",
 "C10c-1": "line order: #META lines are only read before the first data line; CTE_AREAREF/CTE_KEXP/CTE_LOCALIZACION further down are dropped silently",
 "C10c-2": "hash order: '+=' became '=' in the loop over the hash map of cogeneration fuels; with >=2 fuels the last one iterated wins (136 of 299 evaluations differ)",
 "C10c-3": "line split: DEMANDA lines of one service overwrite instead of adding up",
 "C18c-1": "unusual input, two sites: Display for Factors keeps the last of repeated definitions while find() uses the first",
 "C18c-2": "I/O fault: write instead of write_all; a short write is treated as success and the saved file is silently truncated with exit 0",
 "C18c-3": "command sequence over the same files: output paths are created before the inputs are read; an in-place save (--oc = the -c file) empties the input first",
}
for sid, text in needs2.items():
    f = "/verif/seeded/%s/meta.json" % sid
    if os.path.exists(f):
        m = json.load(open(f)); m["needs_to_manifest"] = text; json.dump(m, open(f, "w"), indent=1, ensure_ascii=False)
print("ok2")
needs3 = {
 "C05d-1": "input shape: only the first declared production line of a system is counted (find instead of sum); needs >=2 PRODUCCION lines with the same id and carrier; also breaks idempotence",
 "C05d-2": "input shape: only EPB-service uses are completed (is_epb_use for is_used); needs an EAMBIENTE/TERMOSOLAR CONSUMO with service NEPB or COGEN",
 "C05d-3": "input shape: lines pass through a HashSet before classification; two textually identical lines (values and comment) are read once",
 "C06d-1": "multi-step sequence: the total to share is taken only from AUX still marked NEPB while retain deletes every AUX of the system; a second normalize() (or JSON round trip + normalize) zeroes the auxiliaries of a multi-service system",
 "C06d-2": "small values: per-service AUX components whose values are all < 0.005 ('would print as 0.00') are skipped; hourly series with a few watts, or a very lopsided split, lose energy",
 "C06d-3": "input shape: the 'no output data' error was folded into the per-service loop; with no SALIDA line at all the AUX of a multi-service system is deleted silently instead of raising the error",
 "C16d-1": "option value: AppSettings::StrictUtf8 removed; any -c/-f/-l/-a/-k/--red value that is not valid UTF-8 panics inside clap",
 "C16d-2": "stored-data fault at a particular byte: error messages slice &line[..80]; an invalid line longer than 80 bytes with a multi-byte character straddling byte 80 panics (1 padding in 40)",
 "C16d-3": "hash order + input shape: cached positions of AUX components go stale after retain/push of an earlier system; index out of bounds in ~55-60% of runs for a particular two-system file",
 "C17d-1": "hash order + ill-conditioned magnitudes: 'Consumida en usos EPB' printed as the f32 sum of the by-service table in HashMap order; 16777216+1+1 prints ...16.00 or ...18.00 depending on the run",
 "C17d-2": "input shape: copy-paste slip (\"REF\", &needs.CAL) in the XML demand elements; wrong or missing <Demanda> for REF / CAL-only demands while plain and JSON stay right",
 "C17d-3": "I/O fault: BufWriter without flush; for outputs under 8 KiB the write happens in drop, which discards errors: --txt/--xml exit 0 under a write fault",
 "C18d-1": "two-step sequence: normalize() discards components carrying the automatic comments before regenerating; the reassigned AUX lines of a saved file vanish on re-read",
 "C18d-2": "unusual values: shared fast formatter prints integer hundredths and loses the sign of values in (-1, 0): -0.40 is written 0.40",
 "C18d-3": "two-incarnation history: ELECTRICIDAD INSITU factor added unconditionally; the export loop then demands a grid electricity factor the saved simplified file of an all-gas building lacks",
 "C10d-1": "hash order: exported energy by source pairs two independent HashMaps with zip; with EL_INSITU and EL_COGEN and some export the pairing is swapped in about half of the evaluations",
 "C10d-2": "line order + thresholds: the DHW indicator's abs() < 0.01 tests became < f32::EPSILON; a few-ulp residue that depends on the order of >=3 AUX lines flips the biomass branch (96.7 % vs error)",
 "C10d-3": "hash order + two sites: EPB-only count in the condition, unfiltered HashSet for the choice; one EPB service + COGEN/NEPB use puts AUX on COGEN in about half of the parses",
}
for sid, text in needs3.items():
    f = "/verif/seeded/%s/meta.json" % sid
    if os.path.exists(f):
        m = json.load(open(f)); m["needs_to_manifest"] = text; json.dump(m, open(f, "w"), indent=1, ensure_ascii=False)
print("ok3")
needs4 = {
 "C05e-1": "rare coincidence: a 'do not duplicate generated productions' guard compares source, comment and values but not the id; two systems with exactly the same uncovered use in every step (twin heat pumps): one gets no completion",
 "C05e-2": "specific text: header detection became to_lowercase().contains(\"vector\"); any data line whose comment contains the word 'vector' is dropped silently",
 "C06e-1": "two-command sequence: systems whose AUX lines all carry the automatic comment are skipped; a file saved with --oc and read back keeps its auxiliaries on NEPB",
 "C06e-2": "rare coincidence: output services keyed by annual output in a BTreeMap; two services with exactly equal non-zero annual output collapse and one share is lost",
 "C10e-1": "hash order + rare shape: the single-service shortcut also fires when only one service has non-zero use and there is no non-zero SALIDA, but picks from the unfiltered HashSet; needs whole all-zero CONSUMO lines",
 "C10e-2": "line order + rare shape: a DEMANDA line is length-checked against the components read before it; a demand series of another length (one annual value) is accepted first in the file and refused later in it",
 "C16e-1": "option value: StrictUtf8 removed and -c read with value_of_os; -f/-a/-k/--red values that are not valid UTF-8 still panic in clap",
 "C16e-2": "specific byte position: Display for EpbdError cuts the echoed detail with &detail[..256]; an error that echoes a line longer than 256 bytes with a multi-byte character across byte 256 panics when displayed",
 "C17e-1": "specific length: XML value lists wrapped every 1024 values and joined without the comma; only series longer than 1024 steps (hourly data) are affected — caught by the thorough tier only (quick tier has <= 12 steps)",
 "C17e-2": "specific key and text: an identification comment <!-- {Name} --> built from the metadata key 'Name'; a value containing '--' makes the XML ill-formed",
 "C18e-1": "rare coincidence: completion skipped when the declared annual production >= annual use, decided on f32 sums; a production with the use's annual total in another profile is not completed, and the decision can flip after 2-decimal printing",
 "C18e-2": "disk history with exact content: writefile skips rewriting when the existing file starts with the new content (read_exact of the new length); a longer earlier output that begins the same keeps its stale tail",
}
for sid, text in needs4.items():
    f = "/verif/seeded/%s/meta.json" % sid
    if os.path.exists(f):
        m = json.load(open(f)); m["needs_to_manifest"] = text; json.dump(m, open(f, "w"), indent=1, ensure_ascii=False)
print("ok4")
needs5 = {
 "C10t-1": "disk history (CLI only): writefile without truncation; a longer earlier report at the output path leaves its tail",
 "C10t-2": "I/O behaviour (CLI only): readfile's 64 KiB block loop stops at the first incomplete block; a short read before end of file silently drops the rest of the input",
 "C16t-1": "fault at a particular point (CLI only): readfile fills st_size bytes with a loop that does not handle a zero-byte read; a file that ends before its announced size makes the program spin forever",
 "C16t-2": "option value (CLI only): a -L pre-scan with std::env::args() panics on the first argument that is not valid Unicode, before clap's StrictUtf8 can refuse it",
 "C17t-1": "I/O fault (CLI only): BufWriter dropped without flush; a write error on an output under 8 KiB is ignored: empty or truncated file, exit 0",
 "C17t-2": "order of operations (CLI only): the DHW indicator is added after --json/--xml are written; the JSON has misc: null while --txt reports the percentage",
 "C18t-1": "fault at a particular point (CLI only): readfile reads lines with map_while(Result::ok); a read error or an invalid byte part-way ends the input silently and a smaller building is evaluated with exit 0",
 "C18t-2": "option/metadata combination (CLI only): CTE_RED1/CTE_RED2 metadata written with 2 decimals; the saved components file overrides the 3-decimal factors of the saved factor file on re-evaluation",
}
for sid, text in needs5.items():
    f = "/verif/seeded/%s/meta.json" % sid
    if os.path.exists(f):
        m = json.load(open(f)); m["needs_to_manifest"] = text; json.dump(m, open(f, "w"), indent=1, ensure_ascii=False)
print("ok5")
