#!/usr/bin/env python3
"""Regenerates §9 of DESIGN.md (between the markers) from the tool outputs:
   seeded/*/meta.json, mutants/RESULTS.txt, tools/section9_static.md (hand-written part)."""
import glob, json, os, re, sys
V = os.path.dirname(os.path.dirname(os.path.abspath(__file__)))
static = open(os.path.join(V, "tools", "section9_static.md")).read()

rows = []
for d in sorted(glob.glob(os.path.join(V, "seeded", "*", ""))):
    m = json.load(open(os.path.join(d, "meta.json")))
    det = m.get("detected_by", [])
    first = ""
    for p in det:
        first = m["checks"][p].get("detail", "")
        mm = re.search(r"kind=(\S+) site=(.*?) run=(\d+)", first)
        if mm:
            first = "%s `%s` / `%s` (run %s)" % (p, mm.group(1), mm.group(2)[:40], mm.group(3))
        break
    rows.append((m["id"], m.get("breaks_property"), m.get("needs_to_manifest", "").replace("|", "/"), ", ".join(det) or "**none**", first))

tail = ""
if "### 9.6" in static:
    i = static.index("### 9.6")
    static, tail = static[:i], static[i:]
out = [static.rstrip(), "", "### 9.4 Independently written changes (`seeded/<id>/`)", "",
       "Each was written by a fresh sub-agent that saw only the property text and a scratch worktree, and was kept only after "
       "`tools/validate_seeded.sh` confirmed in a scratch worktree that it applies, that the unedited suite passes with it, and that its "
       "demonstration fails with it and passes without it. \"caught by\" = quick tier, `VERIF_SEED=1`, of the checks run against it "
       "(`tools/rerun_seeded.sh`, current simulator).", "",
       "| id | targets | what it needs in order to manifest | caught by | first report |", "|---|---|---|---|---|"]
for r in rows:
    out.append("| %s | %s | %s | %s | %s |" % r)
n_all = len(rows); n_det = sum(1 for r in rows if r[3] != "**none**")
n_thor = sum(1 for r in rows if r[3] != "**none**" and all("thorough" in x for x in r[3].split(", ")))
out += ["", "%d of %d independently written changes are caught by at least one check: %d by the quick tier at one seed, %d only by the thorough tier, %d not at all (§9.3)." % (n_det, n_all, n_det - n_thor, n_thor, n_all - n_det), ""]

out += ["### 9.5 Own mutants (DESIGN §5.1, `mutants/*.diff`)", "", "| mutant | caught by |", "|---|---|"]
try:
    for line in open(os.path.join(V, "mutants", "RESULTS.txt")):
        mm = re.match(r"(\S+)\s+detected_by=(\S+)", line)
        if mm:
            out.append("| %s | %s |" % (mm.group(1), mm.group(2).replace(",", ", ")))
except FileNotFoundError:
    pass
text = "\n".join(out) + "\n" + ("\n" + tail.rstrip() + "\n" if tail else "")
p = os.path.join(V, "DESIGN.md")
s = open(p).read()
a = s.index("## 9. Evidence that the checks work")
b = s.index("## 10. Deviations")
head = s[a:s.index("\n", a) + 1]
s = s[:a] + head + "\n" + text + "\n" + s[b:]
open(p, "w").write(s)
print("section 9 regenerated: %d seeded rows" % n_all)
