#!/usr/bin/env bash
# Confirms an independently written property-breaking change and runs the checks against it.
#   tools/validate_seeded.sh <dir-with-patch.diff-and-demo> <seeded-id> <PROP> [<PROP>...]
# Confirms in a scratch worktree (never /repo): patch applies; existing suite passes with it; the
# demonstration fails with it and passes without it. Then runs tools/try_mutant.sh with the given checks.
# On success the change is filed as /verif/seeded/<seeded-id>/ (patch.diff, demo, README.md, meta.json).
set -u
SRC="$(readlink -f "$1")"; ID="$2"; shift 2; PROPS=("$@")
VERIF="$(cd "$(dirname "$0")/.." && pwd)"
W="/tmp/val/$ID"; LOG="/tmp/val-logs/$ID"; rm -rf "$W" "$LOG"; mkdir -p "$W" "$LOG"
export CARGO_NET_OFFLINE=true CARGO_TERM_COLOR=never
cleanup() { git -C /repo worktree remove --force "$W/repo" >/dev/null 2>&1; rm -rf "$W"; git -C /repo worktree prune; }
trap cleanup EXIT
git -C /repo worktree add -q --detach "$W/repo" HEAD || exit 2
cd "$W/repo"
run_demo() {
  if [ -f "$SRC/demo_test.rs" ]; then
    cp "$SRC/demo_test.rs" tests/demo_test.rs
    timeout 900 cargo test --offline --test demo_test >"$LOG/demo-$1.log" 2>&1; r=$?
    rm -f tests/demo_test.rs
    return $r
  elif [ -f "$SRC/demo.sh" ]; then
    cargo build --offline >/dev/null 2>&1
    timeout 900 bash "$SRC/demo.sh" >"$LOG/demo-$1.log" 2>&1; return $?
  else
    echo "no demo" >"$LOG/demo-$1.log"; return 99
  fi
}
git apply "$SRC/patch.diff" 2>"$LOG/apply.log" || { echo "SEEDED $ID confirm=FAIL patch does not apply"; exit 1; }
cargo test --workspace --no-fail-fast --offline >"$LOG/suite.log" 2>&1
if grep -q "test result: FAILED\|^error" "$LOG/suite.log"; then SUITE=fail; else SUITE=pass; fi
NOK=$(grep -c '^test .* ok$' "$LOG/suite.log")
run_demo with; DW=$?
git checkout -q -- . ; git clean -fdq -e target
run_demo without; DWO=$?
echo "SEEDED $ID suite_with_patch=$SUITE($NOK ok) demo_with_patch_rc=$DW demo_without_patch_rc=$DWO"
CONF=no
if [ "$SUITE" = pass ] && [ $DW -ne 0 ] && [ $DW -ne 99 ] && [ $DWO -eq 0 ]; then CONF=yes; fi
cd "$VERIF"
"$VERIF/tools/try_mutant.sh" "seeded-$ID" "$SRC/patch.diff" "${PROPS[@]}" 2>&1 | grep "^MUTANT" | tee "$LOG/checks.txt"
if [ "$CONF" = yes ]; then
  D="$VERIF/seeded/$ID"; rm -rf "$D"; mkdir -p "$D"
  cp "$SRC/patch.diff" "$D/"; [ -f "$SRC/demo_test.rs" ] && cp "$SRC/demo_test.rs" "$D/"; [ -f "$SRC/demo.sh" ] && cp "$SRC/demo.sh" "$D/"
  [ -f "$SRC/README.md" ] && cp "$SRC/README.md" "$D/README.md"
  for extra in "$SRC"/*.csv "$SRC"/*.py "$SRC"/*.txt; do [ -f "$extra" ] && cp "$extra" "$D/"; done
  python3 - "$D" "$ID" "$LOG/checks.txt" "$NOK" "$DW" "$DWO" "${PROPS[@]}" <<'EOF'
import json, sys, re
d, sid, checks, nok, dw, dwo, *props = sys.argv[1:]
results = {}
for line in open(checks):
    m = re.match(r"MUTANT \S+ (\S+) rc=(\d) ?(.*)", line.strip())
    if m and m.group(1).startswith("C"):
        results[m.group(1)] = {"rc": int(m.group(2)), "detail": m.group(3)[:300]}
readme = ""
try: readme = open(d + "/README.md").read()
except Exception: pass
meta = {
  "id": sid,
  "breaks_property": props[0] if props else None,
  "written_by": "independent sub-agent given only the property text and a scratch worktree",
  "needs_to_manifest": "see README.md (author's description)",
  "confirmed": {"existing_suite_with_patch": "passes (%s tests ok)" % nok, "demo_with_patch_exit": int(dw), "demo_without_patch_exit": int(dwo)},
  "what_was_run": ["tools/validate_seeded.sh (scratch worktree: git apply, cargo test --workspace --offline, demo with and without the patch)",
                   "tools/try_mutant.sh (scratch copy of the simulator built against the patched tree, quick tier, VERIF_SEED=1)"],
  "checks": results,
  "detected_by": sorted([p for p, r in results.items() if r["rc"] == 1]),
}
json.dump(meta, open(d + "/meta.json", "w"), indent=1, ensure_ascii=False)
print("SEEDED", sid, "filed; detected_by =", meta["detected_by"])
EOF
else
  echo "SEEDED $ID NOT CONFIRMED (suite=$SUITE demo_with=$DW demo_without=$DWO): not filed"
fi
