#!/usr/bin/env bash
# Sensitivity experiment (DESIGN §3.7): run checks against a scratch copy of /repo with a patch applied,
# without touching /repo (background sweeps use /repo itself).
#   tools/try_mutant.sh <name> <patch.diff> [--tests] [--tier quick|thorough] [--seed N] <PROP>...
# Prints one line per property:  MUTANT <name> <PROP> rc=<0|1|2> <last line / VIOLATION line>
# The scratch directory (worktree, build output) is removed at the end; replay files of violations are
# copied to /tmp/mut-results/<name>/ for inspection.
set -u
NAME="$1"; PATCH="$(readlink -f "$2")"; shift 2
TESTS=0; TIER=quick; SEED="${VERIF_SEED:-1}"; PROPS=()
while [ $# -gt 0 ]; do
  case "$1" in
    --tests) TESTS=1; shift;;
    --tier) TIER="$2"; shift 2;;
    --seed) SEED="$2"; shift 2;;
    *) PROPS+=("$1"); shift;;
  esac
done
VERIF="$(cd "$(dirname "$0")/.." && pwd)"
D="/tmp/mut/$NAME"
RES="/tmp/mut-results/$NAME"
rm -rf "$D" "$RES"; mkdir -p "$D" "$RES"
export CARGO_NET_OFFLINE=true CARGO_TERM_COLOR=never
cleanup() { git -C /repo worktree remove --force "$D/repo" >/dev/null 2>&1; rm -rf "$D"; git -C /repo worktree prune; }
trap cleanup EXIT
git -C /repo worktree add -q --detach "$D/repo" HEAD || { echo "MUTANT $NAME setup rc=2 cannot create worktree"; exit 2; }
git -C "$D/repo" apply "$PATCH" || { echo "MUTANT $NAME setup rc=2 patch does not apply"; exit 2; }
if [ "$TESTS" = 1 ]; then
  (cd "$D/repo" && cargo test --workspace --no-fail-fast --offline >"$RES/tests.log" 2>&1)
  if grep -q "test result: FAILED\|^error" "$RES/tests.log"; then echo "MUTANT $NAME tests rc=1 existing suite FAILS with this patch"; else echo "MUTANT $NAME tests rc=0 existing suite passes ($(grep -c '^test .* ok$' "$RES/tests.log") ok)"; fi
fi
mkdir -p "$D/sim"; cp -r "$VERIF/sim/src" "$VERIF/sim/build.rs" "$VERIF/sim/Cargo.toml" "$VERIF/sim/Cargo.lock" "$VERIF/sim/.cargo" "$D/sim/"
sed -i "s|path = \"/repo\"|path = \"$D/repo\"|" "$D/sim/Cargo.toml"
(cd "$D/sim" && cargo build --release --offline --target-dir "$D/target/sim" >"$RES/sim-build.log" 2>&1) || { echo "MUTANT $NAME build rc=2 simulator does not build against the patched tree"; tail -5 "$RES/sim-build.log"; exit 2; }
(cd "$D/repo" && cargo build --release --offline --bin cteepbd --target-dir "$D/target/sut" >"$RES/sut-build.log" 2>&1) || { echo "MUTANT $NAME build rc=2 CLI does not build"; exit 2; }
[ -f "$VERIF/target/iofault.so" ] || (cd "$VERIF" && ./check setup >/dev/null)
SIM="$D/target/sim/release/cteepbd-sim"
for P in "${PROPS[@]}"; do
  ARGS=()
  case "$P" in C05|C10|C16|C17|C18) ARGS=(--sut-release "$D/target/sut/release/cteepbd" --shim "$VERIF/target/iofault.so");; esac
  if [ "$P" = C16 ]; then
    (cd "$D/repo" && cargo build --offline --bin cteepbd --target-dir "$D/target/sut" >"$RES/sut-debug-build.log" 2>&1) && ARGS+=(--sut-debug "$D/target/sut/debug/cteepbd")
  fi
  rcw=0
  for w in "$VERIF/witnesses/$P"/*.json; do
    [ -f "$w" ] || continue
    "$SIM" replay "$P" "$w" --verif-dir "$RES" "${ARGS[@]}" >"$RES/witness-$P.log" 2>&1; r=$?
    if [ $r -eq 1 ]; then rcw=1; echo "MUTANT $NAME $P witness-fails $(basename "$w")"; fi
  done
  out=$(VERIF_SEED=$SEED "$SIM" run "$P" --tier "$TIER" --verif-dir "$RES" "${ARGS[@]}" 2>&1); rc=$?
  [ $rcw -eq 1 ] && [ $rc -eq 0 ] && rc=1
  echo "$out" >"$RES/$P.log"
  line=$(echo "$out" | grep -m1 "^violation kind" || echo "$out" | tail -1)
  echo "MUTANT $NAME $P rc=$rc $line"
done
exit 0
