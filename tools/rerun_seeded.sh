#!/usr/bin/env bash
# Re-runs the current checks against every filed seeded change and every own mutant, and rewrites the
# "checks"/"detected_by" part of seeded/<id>/meta.json and mutants/RESULTS.txt.
#   tools/rerun_seeded.sh [--jobs N]
cd "$(dirname "$0")/.."
JOBS=3; [ "${1:-}" = "--jobs" ] && JOBS="$2"
props_for() { # which checks to run for a change that targets property $1
  case "$1" in
    C05) echo "C05 C10 C18 C16";; C06) echo "C06 C05 C10 C18";; C10) echo "C10 C05 C06";;
    C16) echo "C16 C10 C17";; C17) echo "C17 C16 C18";; C18) echo "C18 C17 C16";;
  esac
}
mkdir -p /tmp/mut-results
# FAST=1: only the targeted check and the checks that caught the change before (a regression run after the
# simulator changed), instead of the whole neighbourhood
run_one() {
  id="$1"; patch="$2"; target="$3"
  PR="$(props_for "$target")"
  if [ "${FAST:-0}" = 1 ]; then
    PR="$(python3 - "$id" "$target" <<'PY'
import json, sys, os
sid, target = sys.argv[1:]
det = []
try: det = [p for p in json.load(open("seeded/%s/meta.json" % sid)).get("detected_by", []) if len(p) == 3]
except Exception: pass
if not det and os.path.exists("mutants/RESULTS.txt"):
    for line in open("mutants/RESULTS.txt"):
        if line.split() and line.split()[0] == sid and "detected_by=" in line:
            det = [p for p in line.split("detected_by=")[1].split()[0].split(",") if len(p) == 3]
props = []
for p in ([target] if target in det or not det else []) + det[:1] + [target]:
    if p not in props: props.append(p)
print(" ".join(props[:2]))
PY
)"
  fi
  tools/try_mutant.sh "re-$id" "$patch" $PR 2>&1 | grep "^MUTANT" > "/tmp/mut-results/re-$id.txt"
  # nothing caught by the quick tier: try the thorough tier of the targeted property
  if ! grep -q "rc=1" "/tmp/mut-results/re-$id.txt"; then
    tools/try_mutant.sh "reT-$id" "$patch" --tier thorough "$target" 2>&1 | grep "^MUTANT" | sed 's/ \(C[0-9][0-9]\) rc=/ \1 THOROUGH rc=/' >> "/tmp/mut-results/re-$id.txt"
  fi
}
export -f run_one props_for
LIST=()
for d in seeded/*/; do id=$(basename "$d"); [ -f "$d/patch.diff" ] && LIST+=("$id $d/patch.diff ${id:0:3}"); done
for p in mutants/*.diff; do id=$(basename "$p" .diff); LIST+=("$id $p ${id:0:3}"); done
printf '%s\n' "${LIST[@]}" | xargs -P "$JOBS" -L 1 bash -c 'run_one $0 $1 $2'
python3 - <<'PY'
import json, glob, os, re
def parse(path):
    res = {}
    for line in open(path):
        m = re.match(r"MUTANT \S+ (C\d\d) rc=(\d) ?(.*)", line.strip())
        if m: res[m.group(1)] = {"rc": int(m.group(2)), "detail": m.group(3)[:300]}
        m = re.match(r"MUTANT \S+ (C\d\d) THOROUGH rc=(\d) ?(.*)", line.strip())
        if m: res[m.group(1) + "(thorough tier)"] = {"rc": int(m.group(2)), "detail": m.group(3)[:300]}
        m = re.match(r"MUTANT \S+ (C\d\d) witness-fails (.*)", line.strip())
        if m: res.setdefault(m.group(1), {}).setdefault("witness_fails", []).append(m.group(2))
    return res
rows = []
for d in sorted(glob.glob("seeded/*/")):
    sid = os.path.basename(d.rstrip("/"))
    f = "/tmp/mut-results/re-%s.txt" % sid
    if not os.path.exists(f): continue
    res = parse(f)
    meta = json.load(open(d + "meta.json"))
    meta["checks"] = res
    meta["detected_by"] = sorted(p for p, r in res.items() if r.get("rc") == 1)
    json.dump(meta, open(d + "meta.json", "w"), indent=1, ensure_ascii=False)
    rows.append((sid, meta["detected_by"], {p: r.get("detail", "")[:90] for p, r in res.items() if r.get("rc") == 1}))
with open("seeded/RESULTS.txt", "w") as out:
    for sid, det, detail in rows:
        out.write("%-8s detected_by=%s %s\n" % (sid, ",".join(det) or "NONE", json.dumps(detail, ensure_ascii=False)))
with open("mutants/RESULTS.txt", "w") as out:
    for p in sorted(glob.glob("mutants/*.diff")):
        mid = os.path.basename(p)[:-5]
        f = "/tmp/mut-results/re-%s.txt" % mid
        if not os.path.exists(f): continue
        res = parse(f)
        det = sorted(q for q, r in res.items() if r.get("rc") == 1)
        out.write("%-32s detected_by=%s %s\n" % (mid, ",".join(det) or "NONE", json.dumps({q: r.get("detail", "")[:90] for q, r in res.items() if r.get("rc") == 1}, ensure_ascii=False)))
print(open("seeded/RESULTS.txt").read()); print(open("mutants/RESULTS.txt").read())
PY
