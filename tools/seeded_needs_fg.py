import json, os
needs = {
 "C05f-1": "magic metadata key introduced by the change: an obsolete `CTE_ACS_DEMANDA_ANUAL` item is summed into the declared DHW demand (and again on every re-read of a saved file) - reachable only through the dictionary harvested from the source under test",
 "C05f-2": "specific comment tag: a CONSUMO line whose comment contains `CTEEPBD_AUX` / `CTEEPBD_EXCLUYE_AUX_ACS` is read as an auxiliary component (declared consumption lost, ambient use under-completed)",
 "C05f-3": "disk history / specific comment: normalize() discards productions whose comment equals the tool's own balancing text and recomputes them; a declared surplus carrying that comment (a file saved with --oc, then edited) is lost",
 "C05g-1": "disk history / specific comment: productions carrying the tool's balancing comment are deleted when the system has no use of that carrier any more (production-only line of a saved, then edited file)",
 "C05g-2": "rare coincidence: 'no imbalance' decided by a relative tolerance (deficit <= eps * total use); a deficit of 0.10 kWh in one hour of an 8760 x 100 kWh series, or 2 in 20 000 000, is not completed",
 "C05g-3": "I/O behaviour (CLI only): readfile allocates metadata().len() bytes and read_exact()s them; a components file given through a pipe, /dev/stdin or a procfs-like file (announced size 0) is read as empty, exit 0",
 "C06f-1": "hash order + input shape: 'exactly one EPB service' shortcut takes services.iter().next() from the unfiltered set; one EPB service plus NEPB/COGEN use under the same id puts the AUX on NEPB/COGEN in about half of the parses",
 "C06f-2": "rare coincidence: services below 1e-4 of the system's annual output are dropped from the split without renormalising; a step whose only output belongs to such a service loses its AUX",
 "C06f-3": "input shape: per-service |SALIDA| collected into a HashMap (last line wins) while the total sums all lines; two SALIDA lines of one service in a multi-service system lose and mis-share AUX",
 "C06g-1": "two-step sequence: normalize() first removes components carrying the automatic comments; the per-service AUX lines of a file saved with --oc are the only record of the declared auxiliaries and vanish on re-read",
 "C06g-2": "I/O fault / stored bytes (CLI only): readfile through BufReader::lines().map_while(Result::ok); the input ends silently at the first undecodable line or read error and a smaller building is evaluated with exit 0",
 "C06g-3": "input shape: AUX of a system that also declares EL_COGEN production is netted against that production instead of being counted as EPB use (delivered and exported energy unchanged)",
 "C10f-1": "hash order + input shape: last service in map order gets 1 - sum(other shares); with >=2 services whose EPB use of a carrier is all zero and a non-zero weighted balance (exported PV, k_exp > 0) the whole weighted energy lands on a run-dependent service",
 "C10f-2": "hash order + input shape: cogeneration fuel factors collected from filtered keys() zipped with unfiltered values(); one nearby and one non-nearby fuel with DHW demand: the DHW renewable fraction varies between runs",
 "C10f-3": "hash order + input shape: DHW demand covered by nearby carriers capped greedily inside a hash-map loop; two nearby non-biomass carriers with different renewable shares whose use exceeds the demand give 30 % or 60 % depending on the run",
 "C10g-1": "line split: DHW output of biomass systems collected into a map by id (last SALIDA line wins); splitting the SALIDA, ACS line of the biomass system changes the DHW renewable fraction",
 "C10g-2": "line order: system ids as a Vec in order of appearance + dedup(); interleaved ids (1, 2, 1) are completed twice (produced energy 380 -> 680, headline totals unchanged)",
 "C10g-3": "specific comment: normalize() drops every production whose comment equals the tool's balancing text before recomputing; a declared production carrying that comment changes the result",
 "C16f-1": "specific text: tag matched on comment.to_uppercase() but sliced on the original; a character whose upper-case form has another UTF-8 length (ﬁ, ſ, ı, ŉ, ǰ) next to CTEEPBD_EXCLUYE_SCOP_ACS panics (not a char boundary)",
 "C16f-2": "unusual metadata: brace form of CTE_RED1/CTE_RED2 (`{ ren: 1, }`, `{}`, a bare key): val[1..] on an entry without colon panics",
 "C16f-3": "rare shape + option: hours_per_step = 8760 / steps; more than 8760 values per component (leap-year hourly data) with --load_matching divides by zero - caught by the thorough tier only (the quick tier has <= 12 steps)",
 "C16g-1": "option + specific byte: -vv metadata listing cuts values with &value[..60]; a multi-byte character across byte 60 panics",
 "C16g-2": "I/O fault: SIGPIPE reset to SIG_DFL at start-up; a write that fails with EPIPE (output is a pipe whose reader has gone) kills the program by signal 13 with nothing on stderr",
 "C16g-3": "two cooperating faults: writefile returns its exit code and main ORs the codes; one output that cannot be created (73) and another that cannot be written (74) end with the undocumented status 75",
 "C17f-1": "specific text (CLI only): a pass over the --json text puts number lists on one line with a state machine that does not know about strings; a comment such as `[2 uds. de 8 kW]` loses its blanks in the document",
 "C17f-2": "hash order + rounding boundary: totals of the plain report summed from the displayed rows in hash-map order; three services whose f32 sum depends on the order across a 2-decimal boundary print different totals between runs",
 "C17f-3": "unusual value: sign stripped when the formatted text starts with -0.0; two-decimal figures between -0.095 and -0.005 (exports, k_exp > 0, large area) are printed positive",
 "C17g-1": "specific text: escape_xml passes 'already escaped' references through; `&#0;`, `&#27;`, `&#xFFFE;` in a comment give an ill-formed document",
 "C17g-2": "disk history: writefile opens without truncation; a longer earlier document at the output path leaves its tail",
 "C17g-3": "rare coincidence: XML <tot> from an f64 sum while text and result use the f32 sum; they differ when ren + nren lies within half an ulp of a one-decimal boundary (1 in 50 000 at ordinary magnitudes, frequent >= 1e5)",
 "C18f-1": "unusual value: shared formatter 'avoids -0.00' with v.abs() for |v| < 0.01; values in (-0.01, -0.005) are written 0.01",
 "C18f-2": "hash order across incarnations: user notes of AUX lines joined through a HashSet; with >=2 distinct notes the generated comment changes on re-read",
 "C18f-3": "unusual input, two sites: Display for Factors writes the last of repeated definitions at the first position while find() uses the first",
 "C18g-1": "two-incarnation history + legacy key: legacy metadata keys kept verbatim and matched on lookup, set_meta appends the canonical key; an -a/-k override of a file that uses Area_ref/kexp is shadowed by the stale line on re-read",
 "C18g-2": "disk history: 'atomic save' through <output>.tmp opened without truncation; a longer leftover <output>.tmp (killed earlier save) leaves its tail in the saved file",
 "C18g-3": "input shape + size: the factor file saved with --of is sorted with sort_unstable_by_key; with repeated definitions and more than 32 factors the override ends up behind the general value",
}
for sid, text in needs.items():
    p = os.path.join(os.path.dirname(os.path.dirname(os.path.abspath(__file__))), "seeded", sid, "meta.json")
    if os.path.exists(p):
        m = json.load(open(p)); m["needs_to_manifest"] = text
        json.dump(m, open(p, "w"), indent=1, ensure_ascii=False)
print("ok")
