#!/usr/bin/env bash
# No-false-alarm sweep (DESIGN §3.7): every quick check under many VERIF_SEED values on the current tree.
# usage: tools/seed_sweep.sh FIRST LAST [tier]
set -u
cd "$(dirname "$0")/.."
FIRST="${1:-2}"; LAST="${2:-10}"; TIER="${3:-quick}"
./check setup || exit 2
bad=0
for S in $(seq "$FIRST" "$LAST"); do
  for P in C05 C06 C10 C16 C17 C18; do
    out=$(VERIF_SEED=$S ./check $P --tier "$TIER" 2>&1); rc=$?
    echo "seed=$S $P rc=$rc $(echo "$out" | tail -1)"
    if [ $rc -ne 0 ]; then bad=1; echo "$out" | tail -8; fi
  done
done
exit $bad
