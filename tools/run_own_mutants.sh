#!/usr/bin/env bash
# Runs every patch in /verif/mutants against the check(s) of the property named by its file-name prefix
# (plus extra properties given after a colon in EXTRA below). Output: /tmp/mut-results/own-summary.txt
cd "$(dirname "$0")/.."
declare -A EXTRA=( [C16a-write-error-ignored]="C17" [C17c-write-not-all]="C16 C18" [C17d-no-truncate]="C18" [C10c-nepus-assign]="C17" [C06c-single-service-return]="C10" [C05f-balanced-break]="C10" )
mkdir -p /tmp/mut-results
: > /tmp/mut-results/own-summary.txt
for p in mutants/*.diff; do
  n=$(basename "$p" .diff); prop=${n:0:3}
  tools/try_mutant.sh "$n" "$p" ${TESTS:+--tests} "$prop" ${EXTRA[$n]:-} 2>&1 | grep "^MUTANT" | tee -a /tmp/mut-results/own-summary.txt
done
