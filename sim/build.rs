//! Harvests a dictionary of identifier-like tokens (`CTE_AREAREF`, `CTEEPBD_AUX`, ...) from the source of the
//! cteepbd crate this simulator is built against, the way fuzzers build dictionaries: a magic metadata key or
//! comment tag that the code under test interprets is otherwise unreachable for a generator. The workload
//! generator uses the tokens as metadata keys and as words in comments (DESIGN §3.3).
use std::collections::BTreeSet;
use std::path::{Path, PathBuf};

fn walk(dir: &Path, out: &mut Vec<PathBuf>) {
    if let Ok(rd) = std::fs::read_dir(dir) {
        let mut entries: Vec<_> = rd.flatten().map(|e| e.path()).collect();
        entries.sort();
        for p in entries {
            if p.is_dir() {
                walk(&p, out);
            } else if p.extension().map(|e| e == "rs").unwrap_or(false) {
                out.push(p);
            }
        }
    }
}

fn main() {
    let manifest = std::fs::read_to_string("Cargo.toml").expect("Cargo.toml");
    let mut repo = String::from("/repo");
    for line in manifest.lines() {
        if line.trim_start().starts_with("cteepbd") {
            if let Some(p) = line.find("path = \"") {
                let rest = &line[p + 8..];
                if let Some(q) = rest.find('"') {
                    repo = rest[..q].to_string();
                }
            }
        }
    }
    let src = Path::new(&repo).join("src");
    println!("cargo:rerun-if-changed={}", src.display());
    println!("cargo:rerun-if-changed=build.rs");
    let mut files = Vec::new();
    walk(&src, &mut files);
    let mut toks: BTreeSet<String> = BTreeSet::new();
    for f in &files {
        println!("cargo:rerun-if-changed={}", f.display());
        let text = std::fs::read_to_string(f).unwrap_or_default();
        let mut cur = String::new();
        for ch in text.chars().chain(std::iter::once(' ')) {
            if ch.is_ascii_alphanumeric() || ch == '_' {
                cur.push(ch);
            } else {
                // identifier-like constants: upper case, digits and at least one underscore inside
                let ok = cur.len() >= 5
                    && cur.len() <= 48
                    && cur.contains('_')
                    && !cur.starts_with('_')
                    && !cur.ends_with('_')
                    && cur.chars().next().map(|c| c.is_ascii_uppercase()).unwrap_or(false)
                    && cur.chars().all(|c| c.is_ascii_uppercase() || c.is_ascii_digit() || c == '_');
                if ok {
                    toks.insert(cur.clone());
                }
                cur.clear();
            }
        }
    }
    let out = PathBuf::from(std::env::var("OUT_DIR").unwrap()).join("dict.rs");
    let mut s = String::from("pub const SOURCE_DICT: &[&str] = &[\n");
    for t in &toks {
        s.push_str(&format!("    {:?},\n", t));
    }
    s.push_str("];\n");
    std::fs::write(out, s).expect("write dict.rs");
}
