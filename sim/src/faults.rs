//! Stored-data faults (DESIGN §3.4): corruptions of a components / factors file as it sits on the
//! simulated disk, applied before the SUT starts.

use serde::{Deserialize, Serialize};

use crate::rng::Rng;

/// File contents: UTF-8 text when possible, hex otherwise (replay files must hold any byte string).
#[derive(Clone, Debug, PartialEq, Serialize, Deserialize)]
pub enum Blob {
    Utf8(String),
    Hex(String),
}

impl Blob {
    pub fn from_bytes(b: &[u8]) -> Blob {
        match std::str::from_utf8(b) {
            Ok(s) => Blob::Utf8(s.to_string()),
            Err(_) => Blob::Hex(b.iter().map(|x| format!("{:02x}", x)).collect()),
        }
    }
    pub fn bytes(&self) -> Vec<u8> {
        match self {
            Blob::Utf8(s) => s.as_bytes().to_vec(),
            Blob::Hex(h) => (0..h.len() / 2).filter_map(|i| u8::from_str_radix(&h[2 * i..2 * i + 2], 16).ok()).collect(),
        }
    }
    pub fn text_lossy(&self) -> String {
        String::from_utf8_lossy(&self.bytes()).into_owned()
    }
    pub fn len(&self) -> usize {
        match self {
            Blob::Utf8(s) => s.len(),
            Blob::Hex(h) => h.len() / 2,
        }
    }
}

pub const HOSTILE_BYTES: &[&[u8]] = &[
    b"\0", b"\xff", b"#", b",", b"\n", b"\r", b"-", b"+", b".", b"e", b"E", b"i", b"n", b"f", b"N", b"a", b";", b":", b"\"", b"<", b"&",
    "é".as_bytes(), "€".as_bytes(), "\u{feff}".as_bytes(), b" ", b"\t",
];

pub const HOSTILE_FIELDS: &[&str] = &[
    "", " ", "abc", "NaN", "nan", "inf", "-inf", "infinity", "1e39", "-1e39", "-0", "1e-46", "0x10", "1_000", "1,5", "١٢", "+5", "5.", ".5", "--1",
    "1e", "1.2.3", "CONSUMO", "PRODUCCION", "AUX", "SALIDA", "DEMANDA", "ACS", "NEPB", "COGEN", "ELECTRICIDAD", "EAMBIENTE", "EL_INSITU", "EL_COGEN",
    "TERMOSOLAR", "RED", "INSITU", "A_RED", "A_NEPB", "SUMINISTRO", "A", "B", "C", "FOO", "é", "2147483647", "2147483648", "-2147483648",
    "99999999999999999999", "#", "#META", "vector",
];

fn long_digits() -> String {
    "9".repeat(400)
}

pub const VOCAB: &[&str] = &[
    "CONSUMO", "PRODUCCION", "AUX", "SALIDA", "DEMANDA", "ACS", "CAL", "REF", "VEN", "ILU", "NEPB", "COGEN", "ELECTRICIDAD", "EAMBIENTE",
    "TERMOSOLAR", "GASNATURAL", "BIOMASA", "BIOMASADENSIFICADA", "RED1", "RED2", "EL_INSITU", "EL_COGEN", "RED", "INSITU", "SUMINISTRO",
    "A_RED", "A_NEPB", "A", "B", "0", "1", "-1", "2", "1.5", "0.0", "100", "NaN", "inf", "#", "#META", "#CTE_", "CTE_AREAREF", "CTE_KEXP",
    "CTE_LOCALIZACION", "CTE_RED1", ":", "PENINSULA", "vector", "",
];

/// Ranges (start, end) of the lines of `b` (without the terminator), and whether each is a data line.
fn lines_of(b: &[u8]) -> Vec<(usize, usize, bool)> {
    let mut out = Vec::new();
    let mut start = 0;
    for (i, &c) in b.iter().enumerate() {
        if c == b'\n' {
            out.push((start, i));
            start = i + 1;
        }
    }
    if start < b.len() {
        out.push((start, b.len()));
    }
    out.into_iter()
        .map(|(s, e)| {
            let t: Vec<u8> = b[s..e].iter().copied().skip_while(|c| c.is_ascii_whitespace()).collect();
            let data = !t.is_empty() && t[0] != b'#';
            (s, e, data)
        })
        .collect()
}

fn pick_line(rng: &mut Rng, b: &[u8]) -> Option<(usize, usize)> {
    let ls = lines_of(b);
    if ls.is_empty() {
        return None;
    }
    let data: Vec<&(usize, usize, bool)> = ls.iter().filter(|l| l.2).collect();
    if !data.is_empty() && rng.chance(0.8) {
        let l = data[rng.usize(data.len())];
        Some((l.0, l.1))
    } else {
        let l = ls[rng.usize(ls.len())];
        Some((l.0, l.1))
    }
}

fn pick_pos(rng: &mut Rng, b: &[u8]) -> usize {
    match pick_line(rng, b) {
        Some((s, e)) if e > s => s + rng.usize(e - s),
        _ => {
            if b.is_empty() {
                0
            } else {
                rng.usize(b.len())
            }
        }
    }
}

/// Field ranges (comma separated) of the data part (before '#') of a line.
fn fields_of(b: &[u8], s: usize, e: usize) -> Vec<(usize, usize)> {
    let end = b[s..e].iter().position(|&c| c == b'#').map(|p| s + p).unwrap_or(e);
    let mut out = Vec::new();
    let mut start = s;
    for i in s..end {
        if b[i] == b',' {
            out.push((start, i));
            start = i + 1;
        }
    }
    out.push((start, end));
    out
}

pub const FAULT_KINDS: &[&str] = &[
    "bit_flip", "byte_replace", "byte_drop", "byte_dup", "truncate", "zero_block", "block_dup", "block_swap", "block_drop", "line_drop",
    "line_dup", "line_swap", "line_truncate", "field_drop", "field_dup", "field_swap", "field_replace", "value_append", "value_remove",
    "non_utf8",
];

/// Apply one stored-data fault; returns the kind that fired (or None if it had nothing to act on).
pub fn apply_one(rng: &mut Rng, b: &mut Vec<u8>, allow_non_utf8: bool) -> Option<&'static str> {
    let n_kinds = if allow_non_utf8 { FAULT_KINDS.len() } else { FAULT_KINDS.len() - 1 };
    let kind = FAULT_KINDS[rng.usize(n_kinds)];
    if b.is_empty() && kind != "byte_dup" {
        return None;
    }
    match kind {
        "bit_flip" => {
            let p = pick_pos(rng, b);
            b[p] ^= 1 << rng.below(8);
        }
        "byte_replace" => {
            let p = pick_pos(rng, b);
            let r = *rng.pick(HOSTILE_BYTES);
            b.splice(p..p + 1, r.iter().copied());
        }
        "byte_drop" => {
            let p = pick_pos(rng, b);
            b.remove(p);
        }
        "byte_dup" => {
            if b.is_empty() {
                b.push(b',');
            } else {
                let p = pick_pos(rng, b);
                let c = b[p];
                b.insert(p, c);
            }
        }
        "truncate" => {
            let p = pick_pos(rng, b);
            b.truncate(p);
        }
        "zero_block" => {
            let p = pick_pos(rng, b);
            let len = (16 + rng.usize(497)).min(b.len() - p);
            for x in &mut b[p..p + len] {
                *x = 0;
            }
        }
        "block_dup" | "block_swap" | "block_drop" => {
            let len = (16 + rng.usize(497)).min(b.len());
            let p = rng.usize(b.len() - len + 1);
            let block: Vec<u8> = b[p..p + len].to_vec();
            match kind {
                "block_dup" => {
                    let q = rng.usize(b.len() + 1);
                    b.splice(q..q, block);
                }
                "block_drop" => {
                    b.drain(p..p + len);
                }
                _ => {
                    b.drain(p..p + len);
                    let q = rng.usize(b.len() + 1);
                    b.splice(q..q, block);
                }
            }
        }
        "line_drop" | "line_dup" | "line_swap" | "line_truncate" => {
            let (s, e) = pick_line(rng, b)?;
            match kind {
                "line_drop" => {
                    let e2 = (e + 1).min(b.len());
                    b.drain(s..e2);
                }
                "line_dup" => {
                    let mut l: Vec<u8> = b[s..e].to_vec();
                    l.push(b'\n');
                    b.splice(s..s, l);
                }
                "line_truncate" => {
                    if e > s {
                        let cut = s + rng.usize(e - s);
                        b.drain(cut..e);
                    }
                }
                _ => {
                    let (s2, e2) = pick_line(rng, b)?;
                    if s2 != s {
                        let l1: Vec<u8> = b[s..e].to_vec();
                        let l2: Vec<u8> = b[s2..e2].to_vec();
                        if s < s2 {
                            b.splice(s2..e2, l1);
                            b.splice(s..e, l2);
                        } else {
                            b.splice(s..e, l2);
                            b.splice(s2..e2, l1);
                        }
                    }
                }
            }
        }
        "field_drop" | "field_dup" | "field_swap" | "field_replace" | "value_append" | "value_remove" => {
            let (s, e) = pick_line(rng, b)?;
            let fs = fields_of(b, s, e);
            if fs.is_empty() {
                return None;
            }
            match kind {
                "field_drop" => {
                    let (fs_, fe) = fs[rng.usize(fs.len())];
                    let end = if fe < e && b.get(fe) == Some(&b',') { fe + 1 } else { fe };
                    b.drain(fs_..end);
                }
                "field_dup" => {
                    let (fs_, fe) = fs[rng.usize(fs.len())];
                    let mut f: Vec<u8> = b[fs_..fe].to_vec();
                    f.push(b',');
                    b.splice(fs_..fs_, f);
                }
                "field_swap" => {
                    if fs.len() >= 2 {
                        let i = rng.usize(fs.len());
                        let j = rng.usize(fs.len());
                        if i != j {
                            let (a, c) = if i < j { (fs[i], fs[j]) } else { (fs[j], fs[i]) };
                            let fa: Vec<u8> = b[a.0..a.1].to_vec();
                            let fc: Vec<u8> = b[c.0..c.1].to_vec();
                            b.splice(c.0..c.1, fa);
                            b.splice(a.0..a.1, fc);
                        }
                    }
                }
                "field_replace" => {
                    let (fs_, fe) = fs[rng.usize(fs.len())];
                    let r = if rng.chance(0.04) { long_digits() } else { rng.pick(HOSTILE_FIELDS).to_string() };
                    b.splice(fs_..fe, r.into_bytes());
                }
                "value_append" => {
                    let (_, fe) = fs[fs.len() - 1];
                    let n = 1 + rng.usize(3);
                    let mut add = Vec::new();
                    for _ in 0..n {
                        add.extend_from_slice(b", 1.5");
                    }
                    b.splice(fe..fe, add);
                }
                _ => {
                    // remove the last 1..3 fields
                    let n = (1 + rng.usize(3)).min(fs.len());
                    let from = fs[fs.len() - n].0;
                    let from = if from > s { from - 1 } else { from };
                    let to = fs[fs.len() - 1].1;
                    b.drain(from..to);
                }
            }
        }
        "non_utf8" => {
            let p = pick_pos(rng, b);
            let r: &[u8] = *rng.pick(&[&b"\xff"[..], &b"\xc3"[..], &b"\xe2\x82"[..], &b"\xed\xa0\x80"[..], &b"\xf8"[..], &b"\x80"[..]]);
            b.splice(p..p, r.iter().copied());
        }
        _ => unreachable!(),
    }
    Some(kind)
}

/// Corrupt a file with 1..4 stored-data faults.
pub fn corrupt(rng: &mut Rng, original: &[u8], allow_non_utf8: bool) -> (Vec<u8>, Vec<String>) {
    let mut b = original.to_vec();
    let n = 1 + rng.usize(4);
    let mut fired = Vec::new();
    for _ in 0..n {
        if let Some(k) = apply_one(rng, &mut b, allow_non_utf8) {
            fired.push(k.to_string());
        }
    }
    if !allow_non_utf8 && std::str::from_utf8(&b).is_err() {
        b = String::from_utf8_lossy(&b).into_owned().into_bytes();
        fired.push("utf8_repaired(library world takes &str)".into());
    }
    (b, fired)
}

/// Degenerate whole-file shapes: empty, comments only, metadata only, token soup.
pub fn degenerate(rng: &mut Rng) -> (Vec<u8>, String) {
    match rng.below(5) {
        0 => (Vec::new(), "empty_file".into()),
        1 => (b"# solo comentarios\n#\n   \n# fin\n".to_vec(), "comments_only".into()),
        2 => (b"#META CTE_AREAREF: 100\n#META CTE_KEXP: 0.5\n#META CTE_LOCALIZACION: PENINSULA\n".to_vec(), "metadata_only".into()),
        _ => {
            let n_lines = 1 + rng.usize(8);
            let mut s = String::new();
            for _ in 0..n_lines {
                let n_tok = 1 + rng.usize(9);
                let toks: Vec<&str> = (0..n_tok).map(|_| *rng.pick(VOCAB)).collect();
                let sep: &str = *rng.pick(&[",", ", ", " ", ":"][..]);
                s.push_str(&toks.join(sep));
                s.push_str(*rng.pick(&["\n", "\r\n", "\n\n"][..]));
            }
            (s.into_bytes(), "token_soup".into())
        }
    }
}

/// Candidate simplifications of a text (delta debugging on lines, then fields).
pub fn shrink_text(text: &str) -> Vec<String> {
    let mut out = Vec::new();
    let lines: Vec<&str> = text.split('\n').collect();
    let n = lines.len();
    if n > 1 {
        // halves, quarters
        let mut chunk = n / 2;
        while chunk >= 1 {
            let mut i = 0;
            while i < n {
                let mut keep: Vec<&str> = Vec::new();
                keep.extend_from_slice(&lines[..i]);
                keep.extend_from_slice(&lines[(i + chunk).min(n)..]);
                out.push(keep.join("\n"));
                i += chunk;
            }
            if chunk == 1 {
                break;
            }
            chunk /= 2;
            if out.len() > 400 {
                break;
            }
        }
    }
    // per line: drop the comment, drop single fields, simplify numeric fields
    if n <= 40 {
        for (li, l) in lines.iter().enumerate() {
            if let Some(p) = l.find('#') {
                if p > 0 {
                    let mut nl = lines.clone();
                    let cut = l[..p].trim_end();
                    nl[li] = cut;
                    out.push(nl.join("\n"));
                }
            }
            let data_end = l.find('#').unwrap_or(l.len());
            let fields: Vec<&str> = l[..data_end].split(',').collect();
            if fields.len() > 1 && fields.len() <= 40 {
                for fi in 0..fields.len() {
                    let mut nf = fields.clone();
                    nf.remove(fi);
                    let mut nl: Vec<String> = lines.iter().map(|s| s.to_string()).collect();
                    nl[li] = format!("{}{}", nf.join(","), &l[data_end..]);
                    out.push(nl.join("\n"));
                }
                for fi in 0..fields.len() {
                    let t = fields[fi].trim();
                    if t != "1" && t.parse::<f64>().is_ok() {
                        let mut nf: Vec<String> = fields.iter().map(|s| s.to_string()).collect();
                        nf[fi] = " 1".into();
                        let mut nl: Vec<String> = lines.iter().map(|s| s.to_string()).collect();
                        nl[li] = format!("{}{}", nf.join(","), &l[data_end..]);
                        out.push(nl.join("\n"));
                    }
                }
            }
        }
    }
    out
}

#[cfg(test)]
mod tests {
    use super::*;
    #[test]
    fn blob_roundtrip() {
        for b in [&b"abc\n"[..], &b"\xff\x00a"[..], &b""[..]] {
            assert_eq!(Blob::from_bytes(b).bytes(), b.to_vec());
        }
    }
    #[test]
    fn corrupt_never_panics() {
        let text = b"#META CTE_AREAREF: 1\n0, CONSUMO, ACS, ELECTRICIDAD, 1, 2, 3 # c\n0, PRODUCCION, EL_INSITU, 1, 2, 3\nDEMANDA, ACS, 1, 2, 3\n";
        for seed in 0..5000 {
            let mut r = Rng::new(seed);
            let (b, _) = corrupt(&mut r, text, seed % 2 == 0);
            if seed % 2 == 1 {
                assert!(std::str::from_utf8(&b).is_ok());
            }
            let mut r = Rng::new(seed);
            let _ = corrupt(&mut r, b"", true);
            let _ = corrupt(&mut r, b"x", true);
            let _ = degenerate(&mut r);
        }
    }
}
