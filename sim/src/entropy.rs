//! Seam S1 (DESIGN §3.1): the entropy source behind `std::collections::hash_map::RandomState`.
//!
//! std obtains the SipHash keys of every `HashMap`/`HashSet` through a *weak* reference to the libc
//! symbol `getrandom`; the first `RandomState::new()` of a thread reads 16 bytes and every later
//! container of that thread gets `k0 + 1`.  This binary defines the symbol, so the keys — and with
//! them the iteration order of every hash container inside cteepbd — are a pure function of the seed
//! installed for the current thread.  One simulated evaluation = one fresh OS thread = one schedule.

use std::cell::{Cell, RefCell};
use std::panic::{catch_unwind, AssertUnwindSafe};
use std::sync::atomic::{AtomicU64, Ordering};

use crate::rng::splitmix64;

thread_local! {
    /// (state, seeded?) of the per-thread entropy stream. No destructor, const-initialised: safe to
    /// touch from inside `getrandom` at any point of a thread's life.
    static STREAM: Cell<(u64, bool)> = const { Cell::new((0x5EED_0000_0000_0000, false)) };
    static LAST_PANIC: RefCell<Option<Panic>> = const { RefCell::new(None) };
}

/// Calls served by the interposed function (all threads).
pub static CALLS: AtomicU64 = AtomicU64::new(0);
/// Calls served for a thread whose stream had not been seeded by the simulator (should only be the
/// main thread's own containers, never a simulated run).
pub static UNSEEDED_CALLS: AtomicU64 = AtomicU64::new(0);

/// The interposed libc function. Signature: `ssize_t getrandom(void *buf, size_t buflen, unsigned flags)`.
///
/// # Safety
/// Called by std / libc users with a valid buffer of `len` bytes.
#[no_mangle]
pub unsafe extern "C" fn getrandom(buf: *mut u8, len: usize, _flags: u32) -> isize {
    CALLS.fetch_add(1, Ordering::Relaxed);
    let (mut state, seeded) = STREAM.with(|s| s.get());
    if !seeded {
        UNSEEDED_CALLS.fetch_add(1, Ordering::Relaxed);
    }
    let out = std::slice::from_raw_parts_mut(buf, len);
    for chunk in out.chunks_mut(8) {
        state = state.wrapping_add(0x9E37_79B9_7F4A_7C15);
        let v = splitmix64(state).to_le_bytes();
        chunk.copy_from_slice(&v[..chunk.len()]);
    }
    STREAM.with(|s| s.set((state, seeded)));
    len as isize
}

/// Install the entropy stream of the current thread. Must run before the thread creates its first
/// hash container (std caches the keys per thread on first use).
pub fn seed_current_thread(seed: u64) {
    STREAM.with(|s| s.set((splitmix64(seed ^ 0xE17A_0F5C_3B2D_9A41), true)));
}

/// A panic raised by the system under test, as recorded by the (silent) panic hook.
#[derive(Clone, Debug, serde::Serialize, serde::Deserialize, PartialEq)]
pub struct Panic {
    pub message: String,
    /// `file:line` of the panic site with the path reduced to its `src/...` suffix.
    pub site: String,
}

/// Install the silent panic hook (once, from the main thread).
pub fn install_panic_hook() {
    std::panic::set_hook(Box::new(|info| {
        let message = if let Some(s) = info.payload().downcast_ref::<&str>() {
            (*s).to_string()
        } else if let Some(s) = info.payload().downcast_ref::<String>() {
            s.clone()
        } else {
            "<non-string panic payload>".to_string()
        };
        let site = info
            .location()
            .map(|l| format!("{}:{}", short_path(l.file()), l.line()))
            .unwrap_or_else(|| "<unknown>".into());
        let mut message = message;
        if message.len() > 300 {
            let mut cut = 300;
            while !message.is_char_boundary(cut) {
                cut -= 1;
            }
            message.truncate(cut);
        }
        if let Ok(mut g) = LAST_PANIC_ANY.try_lock() {
            *g = Some(Panic { message: message.clone(), site: site.clone() });
        }
        LAST_PANIC.with(|p| *p.borrow_mut() = Some(Panic { message, site }));
    }));
}

fn short_path(p: &str) -> String {
    // keep crate-relative part: ".../src/foo.rs" -> "src/foo.rs"; registry crates keep "<crate>/src/.."
    if let Some(pos) = p.rfind("/src/") {
        let head = &p[..pos];
        let crate_dir = head.rsplit('/').next().unwrap_or("");
        if crate_dir == "repo" || crate_dir.is_empty() {
            p[pos + 1..].to_string()
        } else {
            format!("{}/{}", crate_dir, &p[pos + 1..])
        }
    } else {
        p.to_string()
    }
}

/// Last panic recorded by the hook in any thread (harness-error reporting).
pub static LAST_PANIC_ANY: std::sync::Mutex<Option<Panic>> = std::sync::Mutex::new(None);

pub fn last_panic_text() -> String {
    match LAST_PANIC_ANY.lock().ok().and_then(|g| g.clone()) {
        Some(p) => format!("{} at {}", p.message, p.site),
        None => "<no record>".into(),
    }
}

/// Run a piece of the system under test; a panic becomes `Err(Panic)` (site taken from the hook).
pub fn guard<T>(f: impl FnOnce() -> T) -> Result<T, Panic> {
    LAST_PANIC.with(|p| *p.borrow_mut() = None);
    match catch_unwind(AssertUnwindSafe(f)) {
        Ok(v) => Ok(v),
        Err(_) => Err(LAST_PANIC.with(|p| p.borrow_mut().take()).unwrap_or(Panic {
            message: "<panic without hook record>".into(),
            site: "<unknown>".into(),
        })),
    }
}

/// Execute `f` in a fresh OS thread whose hash-iteration schedule is decided by `seed`.
/// A panic of `f` itself (harness code outside `guard`) is a harness error and is propagated.
pub fn in_thread<T: Send + 'static>(seed: u64, f: impl FnOnce() -> T + Send + 'static) -> T {
    let handle = std::thread::Builder::new()
        .stack_size(2 << 20)
        .spawn(move || {
            seed_current_thread(seed);
            f()
        })
        .expect("spawn simulated thread");
    match handle.join() {
        Ok(v) => v,
        Err(e) => {
            let msg = if let Some(s) = e.downcast_ref::<&str>() {
                (*s).to_string()
            } else if let Some(s) = e.downcast_ref::<String>() {
                s.clone()
            } else {
                "<non-string>".into()
            };
            crate::harness_error(&format!("harness code panicked inside a simulated thread: {}", msg))
        }
    }
}

/// Observable order of a fresh 8-element `HashSet<i32>` in the current thread (self-test, signatures).
pub fn probe_order() -> Vec<i32> {
    let s: std::collections::HashSet<i32> = (0..8).collect();
    s.into_iter().collect()
}

/// Self-test of the seam (DESIGN §3.1): equal seeds agree, different seeds give several orders, the
/// interposed function is actually being called. Returns a description of the failure if any.
pub fn selftest() -> Result<(), String> {
    let before = CALLS.load(Ordering::Relaxed);
    let a = in_thread(12345, probe_order);
    let b = in_thread(12345, probe_order);
    if a != b {
        return Err(format!("same entropy seed gave different hash orders: {:?} vs {:?}", a, b));
    }
    let mut orders = std::collections::BTreeSet::new();
    for s in 0..16u64 {
        orders.insert(in_thread(1000 + s, probe_order));
    }
    if orders.len() < 2 {
        return Err("16 entropy seeds gave a single hash order: seam not effective".into());
    }
    let after = CALLS.load(Ordering::Relaxed);
    if after <= before {
        return Err("interposed getrandom was never called: std does not read hash keys through it".into());
    }
    Ok(())
}
