//! Campaign engine: seeded runs sharded over worker processes, confirmation, minimisation, replay
//! files, evidence (DESIGN §3.1 "World L isolation", §3.2, §3.6, §3.7, §3.9).

use std::collections::{BTreeMap, BTreeSet};
use std::io::Write;
use std::path::{Path, PathBuf};
use std::time::Instant;

use serde::{de::DeserializeOwned, Deserialize, Serialize};
use serde_json::{json, Value};

use crate::rng::{mix, property_code};

#[derive(Clone, Copy, Debug, PartialEq, Eq)]
pub enum Tier {
    Quick,
    Thorough,
}
impl Tier {
    pub fn name(self) -> &'static str {
        match self {
            Tier::Quick => "quick",
            Tier::Thorough => "thorough",
        }
    }
}

/// Everything a run may depend on besides its index.
#[derive(Clone, Debug)]
pub struct Ctx {
    pub verif_seed: u64,
    pub tier: Tier,
    pub prop: String,
    /// Real CLI binaries (World P); None when the property has no process world or in unit tests.
    pub sut_release: Option<PathBuf>,
    pub sut_debug: Option<PathBuf>,
    pub shim: Option<PathBuf>,
    /// Root of the simulated disks (tmpfs).
    pub disk_root: PathBuf,
    /// Override of the number of runs (testing / sensitivity experiments).
    pub runs_override: Option<u64>,
}

impl Ctx {
    pub fn run_seed(&self, run_index: u64) -> u64 {
        mix(&[self.verif_seed, property_code(&self.prop), run_index])
    }
    pub fn thorough(&self) -> bool {
        self.tier == Tier::Thorough
    }
}

#[derive(Clone, Debug, Serialize, Deserialize, PartialEq)]
pub struct Violation {
    /// Violation class (e.g. `panic`, `aux_conservation`, `schedule_dependence`).
    pub kind: String,
    /// Where: panic site `file:line`, or the oracle clause / quantity.
    pub site: String,
    pub message: String,
}

impl Violation {
    pub fn new(kind: &str, site: impl Into<String>, message: impl Into<String>) -> Self {
        let mut message: String = message.into();
        if message.len() > 1200 {
            let mut cut = 1200;
            while !message.is_char_boundary(cut) {
                cut -= 1;
            }
            message.truncate(cut);
            message.push_str("…");
        }
        Violation { kind: kind.into(), site: site.into(), message }
    }
    pub fn same_class(&self, other: &Violation) -> bool {
        self.kind == other.kind && self.site == other.site
    }
}

/// Result of executing one scenario.
#[derive(Clone, Debug, Default)]
pub struct Exec {
    pub violation: Option<Violation>,
    /// Digest of the run's event log (must be a pure function of scenario + code).
    pub fingerprint: u64,
    /// Signature of the (input features, schedule/fault signature) pair if the run was non-trivial by
    /// the property's stated rule.
    pub nontrivial: Option<u64>,
    /// Observable order signatures realised in this run.
    pub order_sigs: Vec<u64>,
    /// Named counters (fault kinds fired, skipped comparisons, ...), summed over the campaign.
    pub counters: Vec<(String, u64)>,
    /// Named maxima (e.g. largest observed schedule noise), max-ed over the campaign.
    pub maxima: Vec<(String, f64)>,
}

impl Exec {
    pub fn count(&mut self, name: &str, n: u64) {
        if n > 0 {
            self.counters.push((name.to_string(), n));
        }
    }
    pub fn maxi(&mut self, name: &str, v: f64) {
        self.maxima.push((name.to_string(), v));
    }
}

pub trait Property: Sync {
    type Scn: Serialize + DeserializeOwned + Clone + Send + 'static;
    fn id(&self) -> &'static str;
    fn runs(&self, tier: Tier) -> u64;
    /// Draw the scenario of run `run_index` (pure function of ctx seed and index).
    fn generate(&self, ctx: &Ctx, run_index: u64) -> Self::Scn;
    /// Execute a scenario against the real code and evaluate the oracles (pure function of the
    /// scenario and the code).
    fn execute(&self, ctx: &Ctx, scn: &Self::Scn) -> Exec;
    /// Candidate simplifications of a scenario, most aggressive first.
    fn shrink(&self, scn: &Self::Scn) -> Vec<Self::Scn>;
    /// Short human-readable rendering for evidence samples.
    fn sample(&self, scn: &Self::Scn) -> Value;
    fn rule(&self) -> String;
    fn assumptions(&self) -> Vec<String>;
    /// Extra static evidence (real / stubbed components etc.).
    fn extra_evidence(&self) -> Value {
        json!({})
    }
}

const BLOCK: u64 = 64;
const SET_CAP: usize = 2_000_000;

#[derive(Default, Serialize, Deserialize)]
struct ShardSummary {
    done: bool,
    runs: u64,
    digest: u64,
    nontrivial: Vec<u64>,
    nontrivial_runs: u64,
    order_sigs: Vec<u64>,
    counters: BTreeMap<String, u64>,
    maxima: BTreeMap<String, f64>,
    /// (run index, fingerprint) of the designated determinism probes
    probes: Vec<(u64, u64)>,
    samples: Vec<Value>,
    violation: Option<(u64, Violation, Value)>,
    saturated: bool,
}

fn probe_stride(total: u64) -> u64 {
    (total / 64).max(1)
}

/// Worker process entry: executes the blocks of its shard, writes progress marks and a summary.
pub fn worker<P: Property>(p: &P, ctx: &Ctx, shard: u64, shards: u64, out_path: &Path) {
    let total = ctx.runs_override.unwrap_or_else(|| p.runs(ctx.tier));
    let mut out = std::fs::OpenOptions::new().create(true).append(true).open(out_path).expect("worker output");
    let mut sum = ShardSummary::default();
    let mut nontrivial: BTreeSet<u64> = BTreeSet::new();
    let mut orders: BTreeSet<u64> = BTreeSet::new();
    let stride = probe_stride(total);
    let n_blocks = (total + BLOCK - 1) / BLOCK;
    let mut block = shard;
    'outer: while block < n_blocks {
        let lo = block * BLOCK;
        let hi = ((block + 1) * BLOCK).min(total);
        for idx in lo..hi {
            // progress mark (unbuffered): lets the controller attribute a death or hang to a run
            let _ = out.write_all(format!("S {}\n", idx).as_bytes());
            let scn = p.generate(ctx, idx);
            let ex = p.execute(ctx, &scn);
            sum.runs += 1;
            sum.digest = sum.digest.wrapping_add(mix(&[idx, ex.fingerprint]));
            if idx % stride == 0 {
                sum.probes.push((idx, ex.fingerprint));
            }
            if idx < 3 {
                sum.samples.push(p.sample(&scn));
            }
            if let Some(sig) = ex.nontrivial {
                sum.nontrivial_runs += 1;
                if nontrivial.len() < SET_CAP {
                    nontrivial.insert(sig);
                } else {
                    sum.saturated = true;
                }
            }
            for s in ex.order_sigs {
                if orders.len() < SET_CAP {
                    orders.insert(s);
                }
            }
            for (k, v) in ex.counters {
                *sum.counters.entry(k).or_insert(0) += v;
            }
            for (k, v) in ex.maxima {
                let e = sum.maxima.entry(k).or_insert(f64::MIN);
                if v > *e {
                    *e = v;
                }
            }
            if let Some(v) = ex.violation {
                sum.violation = Some((idx, v, serde_json::to_value(&scn).expect("scenario to json")));
                break 'outer;
            }
        }
        block += shards;
    }
    sum.done = true;
    sum.nontrivial = nontrivial.into_iter().collect();
    sum.order_sigs = orders.into_iter().collect();
    let line = format!("Z {}\n", serde_json::to_string(&sum).expect("summary to json"));
    let _ = out.write_all(line.as_bytes());
}

pub struct CampaignResult {
    pub runs: u64,
    pub digest: u64,
    pub violation: Option<(u64, Violation, Value)>,
    pub nontrivial_distinct: u64,
    pub nontrivial_runs: u64,
    pub order_sigs_distinct: u64,
    pub counters: BTreeMap<String, u64>,
    pub maxima: BTreeMap<String, f64>,
    pub probes: Vec<(u64, u64)>,
    pub samples: Vec<Value>,
    pub saturated: bool,
}

fn read_shard(path: &Path) -> (Option<ShardSummary>, Option<u64>) {
    let text = std::fs::read_to_string(path).unwrap_or_default();
    let mut last_started = None;
    let mut summary = None;
    for line in text.lines() {
        if let Some(rest) = line.strip_prefix("S ") {
            last_started = rest.trim().parse::<u64>().ok();
        } else if let Some(rest) = line.strip_prefix("Z ") {
            summary = serde_json::from_str::<ShardSummary>(rest).ok();
        }
    }
    (summary, last_started)
}

/// Controller: runs the campaign over `workers` worker processes of this same binary.
pub fn campaign<P: Property>(p: &P, ctx: &Ctx, workers: u64, extra_args: &[String]) -> CampaignResult {
    let total = ctx.runs_override.unwrap_or_else(|| p.runs(ctx.tier));
    let workers = workers.max(1).min(((total + BLOCK - 1) / BLOCK).max(1));
    let exe = std::env::current_exe().expect("current exe");
    let dir = ctx.disk_root.join(format!("ctl-{}", std::process::id()));
    std::fs::create_dir_all(&dir).expect("controller dir");
    let mut children = Vec::new();
    for w in 0..workers {
        let out = dir.join(format!("shard-{}.log", w));
        let _ = std::fs::remove_file(&out);
        let mut cmd = std::process::Command::new(&exe);
        cmd.arg("worker")
            .arg(p.id())
            .arg("--tier")
            .arg(ctx.tier.name())
            .arg("--seed")
            .arg(ctx.verif_seed.to_string())
            .arg("--shard")
            .arg(format!("{}/{}", w, workers))
            .arg("--out")
            .arg(&out)
            .args(extra_args)
            .stdin(std::process::Stdio::null())
            .stdout(std::process::Stdio::null())
            .stderr(std::process::Stdio::null());
        if let Some(n) = ctx.runs_override {
            cmd.arg("--runs").arg(n.to_string());
        }
        let child = cmd.spawn().expect("spawn worker");
        children.push((w, child, out, 0u64, Instant::now()));
    }
    // wait with a hang watchdog (no progress mark for WATCHDOG_S seconds)
    const WATCHDOG_S: u64 = 120;
    let mut exited: BTreeMap<u64, Option<i32>> = BTreeMap::new();
    let mut hung: BTreeSet<u64> = BTreeSet::new();
    while exited.len() < children.len() {
        for (w, child, out, last_len, last_change) in children.iter_mut() {
            if exited.contains_key(w) {
                continue;
            }
            match child.try_wait() {
                Ok(Some(status)) => {
                    exited.insert(*w, status.code());
                }
                Ok(None) => {
                    let len = std::fs::metadata(&*out).map(|m| m.len()).unwrap_or(0);
                    if len != *last_len {
                        *last_len = len;
                        *last_change = Instant::now();
                    } else if last_change.elapsed().as_secs() > WATCHDOG_S {
                        let _ = child.kill();
                        let _ = child.wait();
                        hung.insert(*w);
                        exited.insert(*w, None);
                    }
                }
                Err(_) => {
                    exited.insert(*w, None);
                }
            }
        }
        std::thread::sleep(std::time::Duration::from_millis(20));
    }
    // collect
    let mut res = CampaignResult {
        runs: 0,
        digest: 0,
        violation: None,
        nontrivial_distinct: 0,
        nontrivial_runs: 0,
        order_sigs_distinct: 0,
        counters: BTreeMap::new(),
        maxima: BTreeMap::new(),
        probes: Vec::new(),
        samples: Vec::new(),
        saturated: false,
    };
    let mut nontrivial: BTreeSet<u64> = BTreeSet::new();
    let mut orders: BTreeSet<u64> = BTreeSet::new();
    let mut consider = |res: &mut CampaignResult, cand: (u64, Violation, Value)| {
        let better = match &res.violation {
            None => true,
            Some((i, _, _)) => cand.0 < *i,
        };
        if better {
            res.violation = Some(cand);
        }
    };
    for (w, _, out, _, _) in &children {
        let (summary, last_started) = read_shard(out);
        match summary {
            Some(s) if s.done => {
                res.runs += s.runs;
                res.digest = res.digest.wrapping_add(s.digest);
                res.nontrivial_runs += s.nontrivial_runs;
                nontrivial.extend(s.nontrivial);
                orders.extend(s.order_sigs);
                for (k, v) in s.counters {
                    *res.counters.entry(k).or_insert(0) += v;
                }
                for (k, v) in s.maxima {
                    let e = res.maxima.entry(k).or_insert(f64::MIN);
                    if v > *e {
                        *e = v;
                    }
                }
                res.probes.extend(s.probes);
                res.samples.extend(s.samples);
                res.saturated |= s.saturated;
                if let Some(v) = s.violation {
                    consider(&mut res, v);
                }
            }
            _ => {
                if exited.get(w).cloned().flatten() == Some(2) {
                    // exit 2 is the simulator's own harness-error status (e.g. a panic of harness code)
                    crate::harness_error(&format!("worker {} ended with a harness error while executing run {:?}", w, last_started));
                }
                // The worker died (abort, kill, stack overflow, exit) or hung inside a run: the SUT took
                // the process down. Attribute it to the run that had been started last.
                let idx = match last_started {
                    Some(i) => i,
                    None => crate::harness_error(&format!("worker {} died before starting any run", w)),
                };
                let scn = p.generate(ctx, idx);
                let kind = if hung.contains(w) { "hang" } else { "abort" };
                let v = Violation::new(
                    kind,
                    "worker-process",
                    format!(
                        "worker process {} while executing run {} (exit {:?}): the system under test ended or stalled the process",
                        if hung.contains(w) { "made no progress for 120 s" } else { "died" },
                        idx,
                        exited.get(w).cloned().flatten()
                    ),
                );
                consider(&mut res, (idx, v, serde_json::to_value(&scn).expect("scenario to json")));
            }
        }
    }
    res.nontrivial_distinct = nontrivial.len() as u64;
    res.order_sigs_distinct = orders.len() as u64;
    res.samples.truncate(3);
    let _ = std::fs::remove_dir_all(&dir);
    res
}

/// Delta-debugging style minimisation: greedily accept any candidate that still shows the same
/// violation class (kind + site).
pub fn minimise<P: Property>(p: &P, ctx: &Ctx, scn: P::Scn, target: &Violation, budget: usize) -> (P::Scn, Violation, usize) {
    let mut cur = scn;
    let mut cur_v = target.clone();
    let mut steps = 0usize;
    let mut tried = 0usize;
    let start = Instant::now();
    loop {
        let mut improved = false;
        for cand in p.shrink(&cur) {
            tried += 1;
            if tried > budget || start.elapsed().as_secs() > 120 {
                return (cur, cur_v, steps);
            }
            let ex = p.execute(ctx, &cand);
            if let Some(v) = ex.violation {
                if v.same_class(target) {
                    cur = cand;
                    cur_v = v;
                    steps += 1;
                    improved = true;
                    break;
                }
            }
        }
        if !improved {
            return (cur, cur_v, steps);
        }
    }
}

#[derive(Serialize, Deserialize)]
pub struct ReplayFile {
    pub property: String,
    pub kind: String,
    pub site: String,
    pub message: String,
    pub verif_seed: u64,
    pub run_index: Option<u64>,
    pub minimisation_steps: usize,
    pub scenario: Value,
}

pub fn write_replay<P: Property>(p: &P, ctx: &Ctx, scn: &P::Scn, v: &Violation, run_index: Option<u64>, steps: usize, dir: &Path) -> PathBuf {
    let scenario = serde_json::to_value(scn).expect("scenario to json");
    let digest = crate::rng::fnv1a(serde_json::to_string(&scenario).unwrap().as_bytes());
    let sub = dir.join(p.id());
    std::fs::create_dir_all(&sub).expect("replay dir");
    let safe_kind: String = v.kind.chars().map(|c| if c.is_ascii_alphanumeric() || c == '_' { c } else { '-' }).collect();
    let path = sub.join(format!("{}-{:016x}.json", safe_kind, digest));
    let rf = ReplayFile {
        property: p.id().to_string(),
        kind: v.kind.clone(),
        site: v.site.clone(),
        message: v.message.clone(),
        verif_seed: ctx.verif_seed,
        run_index,
        minimisation_steps: steps,
        scenario,
    };
    std::fs::write(&path, serde_json::to_string_pretty(&rf).unwrap()).expect("write replay file");
    path
}

pub struct Finished {
    pub exit_code: i32,
}

/// Full check of a property: campaign, determinism probes, confirmation + minimisation, evidence.
pub fn check<P: Property>(p: &P, ctx: &Ctx, workers: u64, verif_dir: &Path, extra_args: &[String]) -> Finished {
    let t0 = Instant::now();
    let res = campaign(p, ctx, workers, extra_args);
    let campaign_s = t0.elapsed().as_secs_f64();

    // determinism: re-execute the probes in this (different) process and compare fingerprints
    let mut probes = res.probes.clone();
    probes.sort();
    let mut probe_mismatch = None;
    let first_violation = res.violation.as_ref().map(|v| v.0).unwrap_or(u64::MAX);
    for (idx, fp) in probes.iter().filter(|(i, _)| *i < first_violation).take(64) {
        let scn = p.generate(ctx, *idx);
        let ex = p.execute(ctx, &scn);
        if ex.fingerprint != *fp {
            probe_mismatch = Some(*idx);
            break;
        }
    }
    if let Some(idx) = probe_mismatch {
        crate::harness_error(&format!(
            "determinism probe failed: run {} of {} gave a different fingerprint when re-executed (harness nondeterminism, not a verdict)",
            idx,
            p.id()
        ));
    }

    let mut exit_code = 0;
    let mut violations = 0;
    let mut violation_json = Value::Null;
    if let Some((idx, v, scn_json)) = &res.violation {
        let scn: P::Scn = serde_json::from_value(scn_json.clone()).expect("scenario from json");
        // confirm in this process
        let worker_level = v.site == "worker-process"; // the SUT killed or stalled the worker itself
        let confirmed = if worker_level {
            // cannot be re-executed in-process without dying: confirm in a child process
            confirm_in_child(p, ctx, &scn, verif_dir)
        } else {
            p.execute(ctx, &scn).violation
        };
        match confirmed {
            Some(cv) if cv.same_class(v) => {
                let (min_scn, min_v, steps) = if worker_level {
                    (scn.clone(), cv.clone(), 0)
                } else {
                    minimise(p, ctx, scn.clone(), &cv, 4000)
                };
                let path = write_replay(p, ctx, &min_scn, &min_v, Some(*idx), steps, &verif_dir.join("replays"));
                crate::say!("violation kind={} site={} run={} seed={}", min_v.kind, min_v.site, idx, ctx.verif_seed);
                crate::say!("  {}", min_v.message.replace('\n', "\n  "));
                crate::say!("VIOLATION property={} replay={}", p.id(), path.display());
                violations = 1;
                exit_code = 1;
                violation_json = json!({"kind": min_v.kind, "site": min_v.site, "message": min_v.message, "run_index": idx,
                    "replay": path.display().to_string(), "minimisation_steps": steps});
            }
            other => crate::harness_error(&format!(
                "violation of run {} ({} at {}) did not reproduce on re-execution (got {:?}): harness nondeterminism, not a verdict",
                idx, v.kind, v.site, other
            )),
        }
    }

    let wall_s = t0.elapsed().as_secs_f64();
    let mut coverage = json!({
        "evaluations": res.runs,
        "distinct_nontrivial": res.nontrivial_distinct,
        "nontrivial_runs": res.nontrivial_runs,
        "rule": p.rule(),
        "samples": res.samples,
        "runs_per_hour": if campaign_s > 0.0 { (res.runs as f64 / campaign_s * 3600.0) as u64 } else { 0 },
        "seeds": {"verif_seed": ctx.verif_seed, "first_run_index": 0, "last_run_index": res.runs.saturating_sub(1),
                  "derivation": "run_seed = mix(VERIF_SEED, fnv(property), run_index); streams = mix(run_seed, stream_id)"},
        "campaign_digest": format!("{:016x}", res.digest),
        "distinct_order_signatures": res.order_sigs_distinct,
        "counters": res.counters,
        "maxima": res.maxima,
        "determinism_probes_reexecuted": probes.len().min(64),
        "workers": workers,
        "signature_sets_saturated": res.saturated,
        "simulated_time": "n/a (the SUT reads no clock); logical time = tracked system calls / hash-schedule draws, see counters",
        "violation": violation_json,
    });
    if let (Some(obj), Value::Object(extra)) = (coverage.as_object_mut(), p.extra_evidence()) {
        for (k, v) in extra {
            obj.insert(k, v);
        }
    }
    let evidence = json!({
        "property_id": p.id(),
        "tier": ctx.tier.name(),
        "seed": ctx.verif_seed,
        "level": "exploration",
        "coverage": coverage,
        "assumptions": p.assumptions(),
        "wall_s": wall_s,
        "violations": violations,
    });
    let ev_dir = verif_dir.join("evidence");
    let _ = std::fs::create_dir_all(&ev_dir);
    std::fs::write(ev_dir.join(format!("{}.json", p.id())), serde_json::to_string_pretty(&evidence).unwrap()).expect("write evidence");
    crate::say!(
        "{} tier={} seed={} runs={} nontrivial_distinct={} order_sigs={} wall={:.1}s digest={:016x} -> {}",
        p.id(),
        ctx.tier.name(),
        ctx.verif_seed,
        res.runs,
        res.nontrivial_distinct,
        res.order_sigs_distinct,
        wall_s,
        res.digest,
        if exit_code == 0 { "held on everything explored" } else { "VIOLATED" }
    );
    Finished { exit_code }
}

/// Confirm a process-killing scenario by replaying it in a child process of this binary.
fn confirm_in_child<P: Property>(p: &P, ctx: &Ctx, scn: &P::Scn, _verif_dir: &Path) -> Option<Violation> {
    let v = Violation::new("abort", "worker-process", "replayed in child");
    let dir = ctx.disk_root.join(format!("confirm-{}", std::process::id()));
    let _ = std::fs::create_dir_all(&dir);
    let path = write_replay(p, ctx, scn, &v, None, 0, &dir);
    let exe = std::env::current_exe().ok()?;
    let mut child = std::process::Command::new(exe)
        .arg("replay")
        .arg(p.id())
        .arg(&path)
        .arg("--raw")
        .stdin(std::process::Stdio::null())
        .stdout(std::process::Stdio::null())
        .stderr(std::process::Stdio::null())
        .spawn()
        .ok()?;
    let t0 = Instant::now();
    let result = loop {
        match child.try_wait() {
            Ok(Some(st)) => {
                break match st.code() {
                    Some(0) => None,
                    Some(1) => Some(Violation::new("abort", "worker-process", "child replay reported a violation instead of dying")),
                    _ => Some(Violation::new("abort", "worker-process", format!("child replay ended with {:?}", st))),
                };
            }
            Ok(None) => {
                if t0.elapsed().as_secs() > 120 {
                    let _ = child.kill();
                    let _ = child.wait();
                    break Some(Violation::new("hang", "worker-process", "child replay made no progress for 120 s"));
                }
                std::thread::sleep(std::time::Duration::from_millis(20));
            }
            Err(_) => break None,
        }
    };
    let _ = std::fs::remove_dir_all(&dir);
    result
}

/// Replay a stored scenario in this (fresh) process. Exit 1 + VIOLATION line if it still fails.
pub fn replay<P: Property>(p: &P, ctx: &Ctx, file: &Path, raw: bool) -> i32 {
    let text = match std::fs::read_to_string(file) {
        Ok(t) => t,
        Err(e) => crate::harness_error(&format!("cannot read replay file {}: {}", file.display(), e)),
    };
    let rf: ReplayFile = match serde_json::from_str(&text) {
        Ok(r) => r,
        Err(e) => crate::harness_error(&format!("replay file {} is not valid: {}", file.display(), e)),
    };
    if rf.property != p.id() {
        crate::harness_error(&format!("replay file is for property {}, not {}", rf.property, p.id()));
    }
    let scn: P::Scn = match serde_json::from_value(rf.scenario) {
        Ok(s) => s,
        Err(e) => crate::harness_error(&format!("replay scenario does not deserialize: {}", e)),
    };
    let ex = p.execute(ctx, &scn);
    match ex.violation {
        Some(v) => {
            if !raw {
                crate::say!("violation kind={} site={}", v.kind, v.site);
                crate::say!("  {}", v.message.replace('\n', "\n  "));
                crate::say!("VIOLATION property={} replay={}", p.id(), file.display());
            }
            1
        }
        None => {
            if !raw {
                crate::say!("replay of {} no longer violates {} (fingerprint {:016x})", file.display(), p.id(), ex.fingerprint);
            }
            0
        }
    }
}
