//! Workload generator (DESIGN §3.3): swarm-style profiles, buildings, layouts, factor sets, options.

use crate::model::*;
use crate::rng::Rng;

/// What a property wants to be present in (almost) every generated building.
#[derive(Clone, Copy, Debug, PartialEq)]
pub enum Focus {
    General,
    /// EAMBIENTE / TERMOSOLAR use with missing / partial / exact / surplus production (C05).
    Env,
    /// AUX lines on several systems, multi-service systems with SALIDA (C06).
    Aux,
    /// Rich outputs: demands, many services and carriers, hostile strings, large values (C17).
    Output,
}

#[derive(Clone, Debug)]
pub struct Profile {
    pub steps: usize,
    pub n_systems: usize,
    pub f_env: bool,
    pub f_env_prod: bool,
    pub f_pv: bool,
    pub f_cogen: bool,
    pub f_nepb: bool,
    pub f_aux: bool,
    pub f_out: bool,
    pub f_needs: bool,
    pub f_multi: bool,
    pub f_legacy: bool,
    pub f_odd_ids: bool,
    pub f_repeat_ids: bool,
    pub f_comments: bool,
    pub f_hostile_text: bool,
    pub f_control_chars: bool,
    pub f_meta: bool,
    pub f_cooling: bool,
    pub f_more_decimals: bool,
    pub f_ambiguous_aux: bool,
    /// Two services of a system consume exactly the same (equal rows in the by-service tables).
    pub f_ties: bool,
    pub p_zero: f64,
    /// Maximum value in hundredths of kWh.
    pub max_hundredths: u64,
}

pub const ID_POOL_SMALL: [i32; 5] = [0, 1, 2, 3, 7];
/// Includes neighbours above 2^24 and at the ends of the i32 range (ids that a detour through f32 or a
/// narrower integer would merge).
pub const ID_POOL_ODD: [i32; 16] =
    [0, 1, 2, 3, 7, -1, -5, 40000, i32::MAX, i32::MIN, 16_777_216, 16_777_217, 20_000_001, i32::MAX - 1, i32::MIN + 1, -16_777_217];

pub fn gen_profile(rng: &mut Rng, focus: Focus, thorough: bool) -> Profile {
    let steps_pool: &[usize] = if thorough { &[1, 2, 3, 12, 12, 24, 365] } else { &[1, 2, 3, 12] };
    let mut steps = *rng.pick(steps_pool);
    if thorough && rng.chance(0.002) {
        // hourly series; now and then a leap year or half-hourly data (more than 8760 values)
        steps = *rng.pick(&[8760, 8760, 8760, 8784, 17520]);
    }
    let mut n_systems = match rng.below(10) {
        0..=2 => 1,
        3..=5 => 2,
        6..=7 => 3,
        8 => 4,
        _ => 1 + rng.usize(6),
    };
    if thorough && rng.chance(0.01) {
        n_systems = 10 + rng.usize(40); // a large installation: hundreds of lines (ids repeat: the pool is small)
    }
    let mut p = Profile {
        steps,
        n_systems,
        f_env: rng.chance(0.5),
        f_env_prod: rng.chance(0.5),
        f_pv: rng.chance(0.4),
        f_cogen: rng.chance(0.2),
        f_nepb: rng.chance(0.3),
        f_aux: rng.chance(0.35),
        f_out: rng.chance(0.4),
        f_needs: rng.chance(0.4),
        f_multi: rng.chance(0.4),
        f_legacy: rng.chance(0.25),
        f_odd_ids: rng.chance(0.3),
        f_repeat_ids: rng.chance(0.15),
        f_comments: rng.chance(0.5),
        f_hostile_text: rng.chance(0.25),
        f_control_chars: false,
        f_meta: rng.chance(0.5),
        f_cooling: rng.chance(0.4),
        f_more_decimals: false,
        f_ambiguous_aux: false,
        f_ties: false,
        p_zero: *rng.pick(&[0.0, 0.05, 0.2, 0.5]),
        max_hundredths: *rng.pick(&[100, 10_000, 1_000_000, 10_000_000]),
    };
    // a large file now and then (over 1 MiB of text: hourly series for a dozen systems), in every tier: sizes at which
    // a program may switch to another way of reading or parsing
    if rng.chance(if thorough { 0.0005 } else { 0.0002 }) {
        p.steps = 8760;
        p.n_systems = 6 + rng.usize(6);
    }
    // magnitudes far apart within one series (1e9 kWh next to hundredths): sums that absorb a small term
    if rng.chance(0.02) {
        p.max_hundredths = 100_000_000_000;
    }
    match focus {
        Focus::General => {}
        Focus::Env => {
            p.f_env = true;
            p.f_env_prod = rng.chance(0.8);
            if p.n_systems == 1 && rng.chance(0.7) {
                p.n_systems = 2 + rng.usize(3);
            }
        }
        Focus::Aux => {
            p.f_aux = true;
            p.f_ties = rng.chance(0.15);
            p.f_out = rng.chance(0.93);
            p.f_ambiguous_aux = rng.chance(0.08);
            // systems whose attribution the rule does not determine (NEPB / COGEN uses) stay a minority
            p.f_nepb = rng.chance(0.12);
            p.f_cogen = rng.chance(0.08);
            if p.n_systems == 1 && rng.chance(0.7) {
                p.n_systems = 2 + rng.usize(3);
            }
            if p.p_zero == 0.0 && rng.chance(0.5) {
                p.p_zero = 0.2;
            }
        }
        Focus::Output => {
            p.f_ties = rng.chance(0.25);
            p.f_needs = rng.chance(0.7);
            p.f_comments = rng.chance(0.8);
            p.f_hostile_text = rng.chance(0.6);
            p.f_meta = rng.chance(0.8);
            if rng.chance(0.15) {
                p.max_hundredths = 100_000_000_000_000; // up to 1e12 kWh
            }
            if rng.chance(0.02) {
                // up to 1e16 kWh: weighted, beyond any 64-bit count of thousandths (one line per tag, so that the
                // generator's own integer sums stay in range)
                p.max_hundredths = 1_000_000_000_000_000_000;
                p.f_multi = false;
            }
        }
    }
    p
}

/// Print `k` hundredths as a decimal token. `style`: 0 = always two decimals, 1 = minimal.
pub fn fmt_hundredths(k: i64, style: u8) -> String {
    let neg = k < 0;
    let a = k.unsigned_abs();
    let (ip, fp) = (a / 100, a % 100);
    let body = match style {
        0 => format!("{}.{:02}", ip, fp),
        _ => {
            if fp == 0 {
                format!("{}", ip)
            } else if fp % 10 == 0 {
                format!("{}.{}", ip, fp / 10)
            } else {
                format!("{}.{:02}", ip, fp)
            }
        }
    };
    if neg {
        format!("-{}", body)
    } else {
        body
    }
}

fn gen_value(rng: &mut Rng, p: &Profile) -> i64 {
    if rng.chance(p.p_zero) {
        0
    } else {
        rng.log_uniform(p.max_hundredths) as i64
    }
}

fn gen_values(rng: &mut Rng, p: &Profile) -> Vec<i64> {
    (0..p.steps).map(|_| gen_value(rng, p)).collect()
}

fn print_values(rng: &mut Rng, p: &Profile, ks: &[i64]) -> Vec<String> {
    let style = if rng.chance(0.5) { 0 } else { 1 };
    let neg_line = ks.iter().any(|&k| k < 0);
    ks.iter()
        .map(|&k| {
            let mut t = fmt_hundredths(k, style);
            if p.f_more_decimals && k == 0 && rng.chance(0.06) {
                // magnitudes below the printed precision (they print as 0.00 or as +-0.01), with the sign of the line
                return format!("{}{}", if neg_line { "-" } else { "" }, rng.pick(&["0.008", "0.0051", "0.0099", "0.006", "0.00501", "0.004", "0.0049", "0.005"][..]));
            }
            if p.f_more_decimals && k != 0 && rng.chance(0.12) {
                // values on a rounding boundary of the printed precision
                if !t.contains('.') {
                    t.push_str(".00");
                } else if t.len() - t.find('.').unwrap() == 2 {
                    t.push('0');
                }
                t.push_str(*rng.pick(&["5", "49999", "50001", "4", "500000"][..]));
            } else if p.f_more_decimals && k != 0 && rng.chance(0.5) {
                // extra decimals: a separately counted class (printed precision is then lossy)
                if !t.contains('.') {
                    t.push_str(".0");
                }
                t.push_str(&format!("{}", 1 + rng.below(899)));
            }
            t
        })
        .collect()
}

include!(concat!(env!("OUT_DIR"), "/dict.rs"));

/// Tokens of the source dictionary usable as *metadata keys*: `CTE_*` names that the generator does not already
/// produce with a meaning of their own.
pub fn dict_meta_keys() -> Vec<&'static str> {
    SOURCE_DICT
        .iter()
        .copied()
        .filter(|t| t.starts_with("CTE_") && !["CTE_AREAREF", "CTE_KEXP", "CTE_LOCALIZACION", "CTE_RED1", "CTE_RED2"].contains(t))
        .collect()
}

/// Tokens usable as *words in the comment of a declared line*: the tool's `CTEEPBD_*` tags.
pub fn dict_comment_tags() -> Vec<&'static str> {
    SOURCE_DICT.iter().copied().filter(|t| t.starts_with("CTEEPBD_")).collect()
}

/// The tool's own automatic comments: files saved with --oc carry them on declared lines.
pub const TOOL_COMMENTS: [&str; 2] = ["Equilibrado de consumo sin producción declarada", "Reasignación automática de consumos auxiliares"];

const PLAIN_WORDS: [&str; 15] = [
    "consumo del vector EAMBIENTE", "Vector energético", "id, vector, tipo", "BdC 1", "Caldera", "PV", "ACS", "Equipo de calefacción COP 3", "n_gen=2.5 n_d+e+c=0.88", "Paneles solares térmicos 2m2",
    "Producción fotovoltaica in situ", "Energía entregada", "SISTEMA SECUNDARIO FC_P01_E01  ventiladores", "x", "Demanda anual",
];
const HOSTILE_BITS: [&str; 61] = [
    "<", ">", "&", "\"", "'", "\\", "#", ",", ";", ":", "é", "ñ", "€", "日本", "\u{1F600}", "&amp;", "<b>", "]]>", "<!--", "--", "%s",
    "\t", "I&D;", "AT&T;", "&#0;", "&#xZZ;", "&#12", "&lt", "&;", "&amp;amp;", "&quot;x&quot;", "</Comentario>", "<![CDATA[", "?>", "\u{feff}",
    "\u{fffd}", "[2 uds. de 8 kW]", "rango [35 - 45]", "[ -1, 2 ]", "{\"a\": [1, 2]}", "\"k\": 1,", "[", "]", "{", "}", "\\n", "\\u0000", "a\tb", "eﬁciencia", "ſ", "ı", "ŉ", "ǰ", "ß", "İ", "### caldera ###", "# # # bomba", "##", "C:\\hulc\\caldera\\", "a: b: c", "clave: valor",
];
/// Characters that no XML 1.0 document can contain (counted with the C0 control-character class).
const CONTROL_BITS: [&str; 8] = ["\u{1}", "\u{8}", "\u{b}", "\u{1f}", "\u{fffe}", "\u{ffff}", "\u{0}", "\u{c}"];

/// A comment / metadata value: trimmed, no line breaks, never one of the tool's control tags.
pub fn gen_text(rng: &mut Rng, hostile: bool, control: bool) -> String {
    let mut s = String::new();
    // now and then a long description (hundreds of bytes, accented): byte offsets inside multi-byte characters
    let n = if rng.chance(0.03) { 20 + rng.usize(60) } else { 1 + rng.usize(3) };
    if n > 3 {
        for i in 0..n {
            if i > 0 {
                s.push(' ');
            }
            s.push_str(*rng.pick(&["calefacción", "refrigeración", "producción", "año", "energía", "térmica", "bomba de calor", "n=0.30", "ñ", "€/kWh"][..]));
        }
        return s;
    }
    for i in 0..n {
        if i > 0 {
            s.push(' ');
        }
        if hostile && rng.chance(0.6) {
            s.push_str(*rng.pick(&HOSTILE_BITS[..]));
            if rng.chance(0.5) {
                s.push_str(*rng.pick(&PLAIN_WORDS[..]));
            }
        } else {
            s.push_str(*rng.pick(&PLAIN_WORDS[..]));
        }
        if control && rng.chance(0.5) {
            s.push_str(*rng.pick(&CONTROL_BITS[..]));
            s.push('z');
        }
    }
    // U+FEFF (zero-width no-break space / byte-order mark) only inside the text: at its ends a reader may count it
    // as blank, like the spaces around it
    let s = s.trim_matches(|c: char| c.is_whitespace() || c == '\u{feff}').to_string();
    if s.is_empty() || s.contains("CTEEPBD_") {
        "c".into()
    } else {
        s
    }
}

fn maybe_comment(rng: &mut Rng, p: &Profile) -> String {
    if p.f_comments && rng.chance(0.04) {
        return rng.pick(&TOOL_COMMENTS).to_string();
    }
    if p.f_comments && rng.chance(0.7) {
        gen_text(rng, p.f_hostile_text, p.f_control_chars)
    } else {
        String::new()
    }
}

fn push_line(b: &mut Building, rng: &mut Rng, p: &Profile, id: i32, kind: Kind, ks: &[i64]) {
    let legacy_ok = matches!(kind, Kind::Used { .. } | Kind::Prod { .. } | Kind::Aux);
    let explicit_id = !(id == 0 && legacy_ok && p.f_legacy && rng.chance(0.6));
    let values = print_values(rng, p, ks);
    let comment = if kind.is_need() {
        // the tool drops comments of DEMANDA lines by design; declare them rarely and only as layout
        String::new()
    } else {
        maybe_comment(rng, p)
    };
    b.lines.push(Line { id, explicit_id, kind, values, comment });
}

fn used(service: &str, carrier: &str) -> Kind {
    Kind::Used { service: service.into(), carrier: carrier.into() }
}

/// Generate one building from a profile.
pub fn gen_building(rng: &mut Rng, p: &Profile) -> Building {
    let mut b = Building::default();
    let pool: &[i32] = if p.f_odd_ids { &ID_POOL_ODD } else { &ID_POOL_SMALL };
    // ids of the systems
    let mut ids: Vec<i32> = Vec::new();
    for _ in 0..p.n_systems {
        let mut id = *rng.pick(pool);
        if !p.f_repeat_ids {
            let mut guard = 0;
            while ids.contains(&id) && guard < 50 {
                id = *rng.pick(pool);
                guard += 1;
            }
        }
        ids.push(id);
    }

    let mut any_cogen_prod = false;
    for (si, &id) in ids.iter().enumerate() {
        // --- services and carriers of the system
        let n_srv = match rng.below(10) {
            0..=4 => 1,
            5..=7 => 2,
            _ => 3,
        };
        let mut services: Vec<&str> = Vec::new();
        let srv_pool: Vec<&str> =
            if p.f_cooling { EPB_SERVICES.to_vec() } else { vec!["ACS", "CAL", "VEN", "ILU"] };
        while services.len() < n_srv {
            let s = *rng.pick(&srv_pool);
            if !services.contains(&s) {
                services.push(s);
            }
        }
        let mut carriers: Vec<&str> = Vec::new();
        if rng.chance(0.6) {
            carriers.push("ELECTRICIDAD");
        }
        if rng.chance(0.5) {
            carriers.push(*rng.pick(&FUEL_CARRIERS));
        }
        if p.f_env && rng.chance(0.75) {
            carriers.push(if rng.chance(0.6) { "EAMBIENTE" } else { "TERMOSOLAR" });
            if rng.chance(0.15) {
                carriers.push(if carriers.contains(&"EAMBIENTE") { "TERMOSOLAR" } else { "EAMBIENTE" });
            }
        }
        let production_only = rng.chance(0.08) && (p.f_pv || p.f_env);
        if carriers.is_empty() && !production_only {
            carriers.push(*rng.pick(&["ELECTRICIDAD", "GASNATURAL", "BIOMASA"]));
        }

        // --- CONSUMO lines
        let mut used_hund: Vec<(String, String, Vec<i64>)> = Vec::new(); // (service, carrier, values)
        if !production_only {
            let mut any = false;
            for s in &services {
                for c in &carriers {
                    if rng.chance(0.65) {
                        let mut n_lines = if p.f_multi && rng.chance(0.5) { 2 + rng.usize(2) } else { 1 };
                        if p.f_multi && p.steps <= 24 && rng.chance(0.04) {
                            n_lines = 5 + rng.usize(12); // a long list of lines with the same tags (5 to 16)
                        }
                        for _ in 0..n_lines {
                            // ties: a service that consumes exactly what another one does (equal table values)
                            let tie: Option<Vec<i64>> = if p.f_ties {
                                used_hund.iter().find(|(s2, c2, _)| c2 == c && s2 != s).map(|(_, _, ks)| ks.clone())
                            } else {
                                None
                            };
                            let ks = match tie {
                                Some(ks) => ks,
                                None => gen_values(rng, p),
                            };
                            push_line(&mut b, rng, p, id, used(s, c), &ks);
                            used_hund.push((s.to_string(), c.to_string(), ks));
                            any = true;
                        }
                    }
                }
            }
            if !any {
                let s = services[0];
                let c = carriers[0];
                let ks = gen_values(rng, p);
                push_line(&mut b, rng, p, id, used(s, c), &ks);
                used_hund.push((s.to_string(), c.to_string(), ks));
            }
        }

        // --- non-EPB and cogeneration uses
        if p.f_nepb && rng.chance(0.5) {
            let c = if rng.chance(0.7) { "ELECTRICIDAD" } else { *rng.pick(&ALL_CARRIERS) };
            let ks = gen_values(rng, p);
            push_line(&mut b, rng, p, id, used("NEPB", c), &ks);
        }
        if p.f_cogen && (rng.chance(0.5) || (si + 1 == ids.len() && !any_cogen_prod)) {
            any_cogen_prod = true;
            // cogeneration: fuel input (COGEN service) and cogenerated electricity
            let n_fuels = 1 + rng.usize(2);
            let declare_input = !rng.chance(0.05);
            for _ in 0..n_fuels {
                if declare_input {
                    let c = *rng.pick(&FUEL_CARRIERS);
                    let ks = gen_values(rng, p);
                    push_line(&mut b, rng, p, id, used("COGEN", c), &ks);
                }
            }
            let ks = gen_values(rng, p);
            push_line(&mut b, rng, p, id, Kind::Prod { source: "EL_COGEN".into() }, &ks);
        }

        // --- on-site electricity
        if p.f_pv && rng.chance(0.6) {
            let n_lines = if p.f_multi && rng.chance(0.3) { 2 } else { 1 };
            for _ in 0..n_lines {
                let ks = gen_values(rng, p);
                push_line(&mut b, rng, p, id, Kind::Prod { source: "EL_INSITU".into() }, &ks);
            }
        }

        // --- declared EAMBIENTE / TERMOSOLAR production
        if p.f_env && p.f_env_prod {
            for c in ["EAMBIENTE", "TERMOSOLAR"] {
                let use_tot: Vec<i64> = (0..p.steps)
                    .map(|t| used_hund.iter().filter(|(s, cc, _)| cc == c && s != "NEPB").map(|(_, _, ks)| ks[t]).sum())
                    .collect();
                let has_use = used_hund.iter().any(|(_, cc, _)| cc == c);
                let mode = rng.below(9);
                if !has_use && !(production_only || rng.chance(0.1)) {
                    continue;
                }
                if mode == 0 {
                    continue; // missing production
                }
                let target_id = if mode == 6 && ids.len() > 1 { ids[(si + 1) % ids.len()] } else { id };
                let mut permuted = use_tot.clone();
                rng.shuffle(&mut permuted);
                let prod: Vec<i64> = use_tot
                    .iter()
                    .enumerate()
                    .map(|(t, &u)| match mode {
                        8 => permuted[t], // same annual total as the use, distributed differently over the steps
                        1 => (u as f64 * rng.unit()) as i64,                  // partial
                        2 | 6 => u,                                           // exact (6: on another system)
                        3 => u + gen_value(rng, p),                           // surplus
                        4 => match rng.below(4) {                             // mixed per step
                            0 => 0,
                            1 => u / 2,
                            2 => u,
                            _ => u + gen_value(rng, p),
                        },
                        5 => gen_value(rng, p),                               // unrelated
                        _ => {
                            if u > 0 {
                                u - 1
                            } else {
                                0
                            }
                        } // one hundredth short
                    })
                    .collect();
                // split into 1..3 lines whose values add up to `prod`
                let n_lines = if p.f_multi && rng.chance(0.4) { 2 + rng.usize(2) } else { 1 };
                for part in split_hundredths(rng, &prod, n_lines) {
                    push_line(&mut b, rng, p, target_id, Kind::Prod { source: c.into() }, &part);
                }
            }
        }

        // --- SALIDA lines (outputs): REF absorbs (negative), the rest deliver (positive)
        let mut out_services: Vec<String> = Vec::new();
        let mut prev_out_mags: Option<Vec<i64>> = None;
        if p.f_out && rng.chance(if p.f_aux { 0.95 } else { 0.85 }) {
            let mut srvs: Vec<String> = services.iter().map(|s| s.to_string()).collect();
            if srvs.len() > 1 && rng.chance(0.15) {
                srvs.pop(); // one used service without declared output
            }
            if rng.chance(0.07) {
                let extra = *rng.pick(&EPB_SERVICES); // output for a service without CONSUMO
                if !srvs.iter().any(|s| s == extra) {
                    srvs.push(extra.to_string());
                }
            }
            for s in srvs {
                let n_lines = if p.f_multi && rng.chance(0.3) { 2 } else { 1 };
                for _ in 0..n_lines {
                    let sign = if s == "REF" { -1 } else { 1 };
                    // ties: a service that delivers exactly as much as the previous one (equal annual outputs)
                    let mags: Vec<i64> = match (&prev_out_mags, p.f_ties && rng.chance(0.5)) {
                        (Some(m), true) => {
                            let mut m2: Vec<i64> = m.clone();
                            if rng.chance(0.5) {
                                rng.shuffle(&mut m2); // same annual total, another profile
                            }
                            m2
                        }
                        _ => gen_values(rng, p),
                    };
                    prev_out_mags = Some(mags.clone());
                    let ks: Vec<i64> = mags.iter().map(|k| sign * k).collect();
                    push_line(&mut b, rng, p, id, Kind::Out { service: s.clone() }, &ks);
                }
                out_services.push(s);
            }
        }

        // --- AUX lines
        if p.f_aux && rng.chance(0.75) {
            let mut n_aux = 1 + rng.usize(3);
            if p.steps <= 24 && rng.chance(0.05) {
                n_aux = 4 + rng.usize(13); // many auxiliary lines on one system (4 to 16)
            }
            for _ in 0..n_aux {
                let ks = gen_values(rng, p);
                push_line(&mut b, rng, p, id, Kind::Aux, &ks);
            }
        }
    }
    // ambiguous AUX arrangements (DESIGN §5 C06): auxiliaries for a system without CONSUMO
    if p.f_ambiguous_aux {
        let id = *rng.pick(pool);
        let ks = gen_values(rng, p);
        push_line(&mut b, rng, p, id, Kind::Aux, &ks);
    }

    // --- building demands
    if p.f_needs {
        // the demand series need not have the components' number of steps (e.g. one annual value): 6 % of files
        let need_len = if rng.chance(0.06) { *rng.pick(&[1usize, 2, 12, p.steps + 1]) } else { p.steps };
        for s in ["ACS", "CAL", "REF"] {
            if rng.chance(0.6) {
                let n = if p.f_multi && rng.chance(0.3) { 2 } else { 1 };
                for _ in 0..n {
                    let ks: Vec<i64> = (0..need_len).map(|_| gen_value(rng, p)).collect();
                    push_line(&mut b, rng, p, 0, Kind::Need { service: s.into() }, &ks);
                }
            }
        }
    }

    // --- twin systems: every line of one system declared again for another id (two identical heat pumps)
    if !b.ids().is_empty() && rng.chance(0.05) {
        let ids_now = b.ids();
        let src_id = *rng.pick(&ids_now);
        let mut new_id = *rng.pick(pool);
        let mut guard = 0;
        while ids_now.contains(&new_id) && guard < 30 {
            new_id = *rng.pick(pool);
            guard += 1;
        }
        if !ids_now.contains(&new_id) {
            let copies: Vec<Line> = b
                .lines
                .iter()
                .filter(|l| !l.kind.is_need() && l.id == src_id)
                .map(|l| {
                    let mut c = l.clone();
                    c.id = new_id;
                    c.explicit_id = new_id != 0 || c.explicit_id || matches!(c.kind, Kind::Out { .. });
                    c
                })
                .collect();
            b.lines.extend(copies);
        }
    }
    // --- the documented exclusion tag on an ambient-energy use for DHW
    if rng.chance(0.03) {
        if let Some(l) = b.lines.iter_mut().find(|l| matches!(&l.kind, Kind::Used { service, carrier } if carrier == "EAMBIENTE" && service == "ACS")) {
            // now and then lower case, or next to characters whose upper/lower case form has another length in UTF-8
            let tag = if rng.chance(0.15) { "cteepbd_excluye_scop_acs" } else { "CTEEPBD_EXCLUYE_SCOP_ACS" };
            let odd = ["ﬁ", "ſ", "ı", "ŉ", "ǰ", "ß", "İ", "→", "é"];
            let (pre, post) = if rng.chance(0.3) { (*rng.pick(&odd), if rng.chance(0.5) { *rng.pick(&odd) } else { "" }) } else { (" ", "") };
            l.comment = format!("{}{}{}{}", if l.comment.is_empty() { "BdC" } else { l.comment.as_str() }, pre, tag, post).trim().to_string();
        }
    }

    // --- a line repeated verbatim (two identical declarations are two declarations)
    if !b.lines.is_empty() && rng.chance(0.06) {
        let i = rng.usize(b.lines.len());
        let dup = b.lines[i].clone();
        let pos = if rng.chance(0.5) { i + 1 } else { rng.usize(b.lines.len() + 1) };
        b.lines.insert(pos, dup);
    }

    // --- shuffle line order a little (systems interleaved) in a third of the runs
    if rng.chance(0.35) {
        rng.shuffle(&mut b.lines);
    }

    // --- metadata
    if p.f_meta {
        // legacy spellings of the three keys (the parser maps them to the CTE_ names) in a tenth of the cases
        let legacy = rng.chance(0.1);
        if rng.chance(0.5) {
            b.meta.push((if legacy { "Area_ref" } else { "CTE_AREAREF" }.into(), gen_area_token(rng)));
        }
        if rng.chance(0.4) {
            b.meta.push((if legacy { "kexp" } else { "CTE_KEXP" }.into(), gen_kexp_token(rng)));
        }
        if rng.chance(0.4) {
            b.meta.push((if legacy { "Localizacion" } else { "CTE_LOCALIZACION" }.into(), rng.pick(&LOCS).to_string()));
        }
        if rng.chance(0.25) {
            b.meta.push(("CTE_RED1".into(), gen_red_token(rng)));
        }
        if rng.chance(0.25) {
            b.meta.push(("CTE_RED2".into(), gen_red_token(rng)));
        }
        let n_free = rng.usize(3);
        for i in 0..n_free {
            let base = *rng.pick(&["Name", "Datetime", "Weather_file", "CTE_FUENTE", "Nota", "Año", "Descripción_del_edificio", "名前", "Ñ"]);
            let key = if i == 0 && rng.chance(0.5) { base.to_string() } else { format!("{}{}", base, i) };
            b.meta.push((key, gen_text(rng, p.f_hostile_text, p.f_control_chars)));
        }
        // the same free key on several lines (a note that spans lines), adjacent or not
        if rng.chance(0.12) {
            let key = rng.pick(&["CTE_NOTA", "Nota", "Descripción"]).to_string();
            let k = 2 + rng.usize(2);
            for _ in 0..k {
                b.meta.push((key.clone(), gen_text(rng, p.f_hostile_text, p.f_control_chars)));
            }
            if rng.chance(0.4) {
                b.meta.push(("Autor".into(), "x".into()));
                b.meta.push((key, gen_text(rng, p.f_hostile_text, p.f_control_chars)));
            }
        }
        // a key from the dictionary harvested from the source under test (an obsolete or undocumented key the code
        // may interpret), with a plain numeric value
        let keys = dict_meta_keys();
        if !keys.is_empty() && rng.chance(0.08) {
            let key = rng.pick(&keys[..]).to_string();
            if !b.meta.iter().any(|(k, _)| *k == key) {
                b.meta.push((key, rng.pick(&["400", "1.5", "0", "1234.56", "12"]).to_string()));
            }
        }
        if rng.chance(0.3) {
            rng.shuffle(&mut b.meta);
        }
    }
    // --- one of the tool's tags (from the same dictionary) in the comment of a declared line
    let tags = dict_comment_tags();
    if !tags.is_empty() && !b.lines.is_empty() && rng.chance(0.04) {
        let i = rng.usize(b.lines.len());
        let tag = *rng.pick(&tags[..]);
        if !matches!(b.lines[i].kind, Kind::Need { .. }) && !b.lines[i].comment.contains("CTEEPBD_") {
            b.lines[i].comment = format!("{} {}", b.lines[i].comment, tag).trim().to_string();
        }
    }
    b
}

/// Split each value of `ks` (hundredths, non-negative or all non-positive) into `n` parts adding up exactly.
pub fn split_hundredths(rng: &mut Rng, ks: &[i64], n: usize) -> Vec<Vec<i64>> {
    let mut parts = vec![vec![0i64; ks.len()]; n.max(1)];
    for (t, &k) in ks.iter().enumerate() {
        let sign = if k < 0 { -1 } else { 1 };
        let mut left = k.abs();
        for part in parts.iter_mut().take(n.max(1) - 1) {
            let take = if left > 0 { rng.below(left as u64 + 1) as i64 } else { 0 };
            part[t] = sign * take;
            left -= take;
        }
        let last = n.max(1) - 1;
        parts[last][t] = sign * left;
    }
    parts
}

pub fn gen_area_token(rng: &mut Rng) -> String {
    rng.pick(&["1", "1.0", "2.5", "100", "100.5", "1234.56", "200.0", "900.000000", "0.5", "50000"]).to_string()
}

pub fn gen_kexp_token(rng: &mut Rng) -> String {
    rng.pick(&["0", "0.0", "1", "1.0", "0.1", "0.2", "0.3", "0.4", "0.5", "0.6", "0.7", "0.8", "0.9"]).to_string()
}

pub fn gen_red_token(rng: &mut Rng) -> String {
    let f = gen_factor_triplet(rng);
    match rng.below(3) {
        0 => format!("{}, {}, {}", f[0], f[1], f[2]),
        1 => format!("({}, {}, {})", f[0], f[1], f[2]),
        _ => format!("{:.3}, {:.3}, {:.3}", f[0], f[1], f[2]),
    }
}

/// Factor values with at most three decimals (thousandths).
pub fn gen_factor_triplet(rng: &mut Rng) -> [f32; 3] {
    let mut v = [0f32; 3];
    for x in v.iter_mut() {
        let k = match rng.below(6) {
            0 => 0,
            1 => 1000,
            _ => rng.below(3001),
        };
        *x = format!("{}.{:03}", k / 1000, k % 1000).parse().unwrap();
    }
    v
}

/// Text layout drawn at random.
pub fn gen_layout(rng: &mut Rng, n_lines: usize) -> Layout {
    let mut lay = Layout::plain();
    lay.bom = rng.chance(0.15);
    lay.crlf = rng.chance(0.2);
    lay.header = rng.chance(0.15);
    lay.final_newline = rng.chance(0.8);
    if rng.chance(0.5) {
        let k = 1 + rng.usize(4);
        lay.seps = (0..k).map(|_| rng.pick(&[", ", ",", " , ", ",  ", ",\t"]).to_string()).collect();
    }
    if rng.chance(0.3) {
        let k = 1 + rng.usize(3);
        lay.lead = (0..k).map(|_| rng.pick(&["", " ", "    ", "\t", "            "]).to_string()).collect();
        lay.trail = (0..k).map(|_| rng.pick(&["", " ", "  ", "\t"]).to_string()).collect();
    }
    if rng.chance(0.4) {
        let k = 1 + rng.usize(4);
        for _ in 0..k {
            let pos = rng.usize(n_lines + 1);
            let text = match rng.below(6) {
                0 => String::new(),
                1 => "   ".to_string(),
                2 => "# Datos de entrada".to_string(),
                3 => "#".to_string(),
                4 => format!("# {}", gen_text(rng, true, false)),
                _ => "# 0, CONSUMO, CAL, ELECTRICIDAD, 1, 2, 3".to_string(),
            };
            lay.extra.push((pos, text));
        }
    }
    if rng.chance(0.3) {
        let k = 1 + rng.usize(3);
        lay.meta_pos = (0..k).map(|_| rng.usize(n_lines + 1)).collect();
    }
    if rng.chance(0.04) {
        // file sizes at and next to typical buffer sizes
        let base = *rng.pick(&[512usize, 1024, 4096, 8192, 16384, 32768, 65536]);
        lay.pad_to = Some((base as i64 + rng.range(-2, 2)) as usize);
    }
    lay
}

/// Generated weighting-factor file (DESIGN §3.3 "factors"). `carriers`: carriers the building uses.
pub fn gen_factor_file(rng: &mut Rng, carriers: &[String], hostile: bool, complete: bool) -> String {
    let mut rows: Vec<String> = Vec::new();
    if rng.chance(0.5) {
        rows.push("vector, fuente, uso, step, ren, nren, co2".into());
    }
    if rng.chance(0.5) {
        rows.push(format!("#META CTE_FUENTE: {}", if hostile { gen_text(rng, true, false) } else { "CTE2013".into() }));
    }
    if rng.chance(0.2) {
        rows.push("#META CTE_FUENTE_COMENTARIO: Factores de paso generados".into());
    }
    let fmt = |f: [f32; 3]| format!("{:.3}, {:.3}, {:.3}", f[0], f[1], f[2]);
    let mut cset: Vec<String> = vec!["ELECTRICIDAD".into()];
    for c in carriers {
        if !cset.contains(c) && (complete || rng.chance(0.93)) {
            cset.push(c.clone());
        }
    }
    // now and then a full table (every carrier, as the regulatory tables have): dozens of factors
    let full_table = rng.chance(0.15);
    for c in ALL_CARRIERS {
        if !cset.iter().any(|x| x == c) && (full_table || rng.chance(0.3)) {
            cset.push(c.to_string());
        }
    }
    rng.shuffle(&mut cset);
    for c in &cset {
        let comment = if rng.chance(0.4) { format!(" # {}", gen_text(rng, hostile, false)) } else { String::new() };
        rows.push(format!("{}, RED, SUMINISTRO, A, {}{}", c, fmt(gen_factor_triplet(rng)), comment));
        if c == "ELECTRICIDAD" || c == "EAMBIENTE" || c == "TERMOSOLAR" {
            if rng.chance(0.5) {
                rows.push(format!("{}, INSITU, SUMINISTRO, A, {}", c, fmt(gen_factor_triplet(rng))));
            }
            for dest in ["A_RED", "A_NEPB"] {
                for step in ["A", "B"] {
                    if rng.chance(0.3) {
                        rows.push(format!("{}, INSITU, {}, {}, {}", c, dest, step, fmt(gen_factor_triplet(rng))));
                    }
                }
            }
        }
        if c == "ELECTRICIDAD" && rng.chance(0.2) {
            for dest in ["A_RED", "A_NEPB"] {
                for step in ["A", "B"] {
                    if rng.chance(0.5) {
                        rows.push(format!("ELECTRICIDAD, COGEN, {}, {}, {}", dest, step, fmt(gen_factor_triplet(rng))));
                    }
                }
            }
        }
        if rng.chance(0.2) {
            rows.push(String::new());
        }
        // the same factor defined again further down with other values (the first definition is the one in force)
        if rng.chance(0.06) {
            rows.push(format!("{}, RED, SUMINISTRO, A, {} # definición repetida", c, fmt(gen_factor_triplet(rng))));
        }
    }
    // "my overrides first, the general table afterwards": every carrier defined (again) at the end with other
    // values; the first definition of a factor is the one in force
    if rng.chance(0.08) {
        rows.push("# tabla general".into());
        for c in ALL_CARRIERS {
            rows.push(format!("{}, RED, SUMINISTRO, A, {} # tabla general", c, fmt(gen_factor_triplet(rng))));
        }
    }
    rows.join("\n") + "\n"
}

/// Evaluation configuration drawn at random for a building.
pub fn gen_evalcfg(rng: &mut Rng, b: &Building, allow_user_file: bool) -> EvalCfg {
    let factors = if allow_user_file && rng.chance(0.3) {
        let complete = rng.chance(0.9);
        FactorSpec::File(gen_factor_file(rng, &b.carriers(), false, complete))
    } else {
        FactorSpec::Loc(rng.pick(&LOCS).to_string())
    };
    let k_exp = match rng.below(4) {
        0 => 0.0,
        1 => 1.0,
        _ => (rng.below(11) as f32) / 10.0,
    };
    let area: f32 = rng.pick(&["1", "2.5", "100", "1234.56", "0.5", "50000", "2000", "192"]).parse().unwrap();
    EvalCfg {
        factors,
        red1: if rng.chance(0.2) { Some(gen_factor_triplet(rng)) } else { None },
        red2: if rng.chance(0.2) { Some(gen_factor_triplet(rng)) } else { None },
        k_exp,
        area,
        load_matching: rng.chance(0.3),
        strip: rng.chance(0.5),
    }
}

/// Shipped example files used as fixed members of the corpus.
pub fn shipped_component_files() -> Vec<(String, String)> {
    let mut out = Vec::new();
    for dir in ["/repo/test_data", "/repo/test_data/extra"] {
        let mut names: Vec<_> = match std::fs::read_dir(dir) {
            Ok(rd) => rd.filter_map(|e| e.ok()).map(|e| e.path()).collect(),
            Err(_) => continue,
        };
        names.sort();
        for p in names {
            let name = p.file_name().unwrap().to_string_lossy().to_string();
            if !name.ends_with(".csv") || name.starts_with("factores_paso") {
                continue;
            }
            if let Ok(text) = std::fs::read_to_string(&p) {
                out.push((name, text));
            }
        }
    }
    out
}

pub fn shipped_factor_files() -> Vec<(String, String)> {
    let mut out = Vec::new();
    for name in ["factores_paso_test.csv", "factores_paso_PENINSULA_20140203.csv"] {
        if let Ok(text) = std::fs::read_to_string(format!("/repo/test_data/{}", name)) {
            out.push((name.to_string(), text));
        }
    }
    out
}

#[cfg(test)]
mod tests {
    use super::*;
    #[test]
    fn hundredths() {
        assert_eq!(fmt_hundredths(1234, 0), "12.34");
        assert_eq!(fmt_hundredths(1200, 1), "12");
        assert_eq!(fmt_hundredths(1230, 1), "12.3");
        assert_eq!(fmt_hundredths(-5, 0), "-0.05");
        assert_eq!(fmt_hundredths(0, 0), "0.00");
    }
    #[test]
    fn split_adds_up() {
        let mut r = Rng::new(3);
        let ks = vec![0, 5, 100, 12345, -40];
        for n in 1..5 {
            let parts = split_hundredths(&mut r, &ks, n);
            for t in 0..ks.len() {
                assert_eq!(parts.iter().map(|p| p[t]).sum::<i64>(), ks[t]);
            }
        }
    }
    #[test]
    fn generated_buildings_parse() {
        for seed in 0..300 {
            let mut r = Rng::new(seed);
            let p = gen_profile(&mut r, Focus::General, false);
            let b = gen_building(&mut r, &p);
            let lay = gen_layout(&mut r, b.lines.len());
            let text = render(&b, &lay);
            assert!(!text.is_empty() || b.lines.is_empty());
        }
    }
}
