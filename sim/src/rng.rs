//! PRNG, hashing and shuffles owned by the simulator (DESIGN §3.2).
//!
//! Nothing in the simulator's decision paths uses `std::collections::HashMap` / `RandomState`,
//! the OS entropy source or a clock: every choice is drawn from a `Rng` whose state is a pure
//! function of `(VERIF_SEED, property, run index, stream id)`.

/// splitmix64 step: also used as the mixing function for deriving seeds.
#[inline]
pub fn splitmix64(x: u64) -> u64 {
    let mut z = x.wrapping_add(0x9E37_79B9_7F4A_7C15);
    z = (z ^ (z >> 30)).wrapping_mul(0xBF58_476D_1CE4_E5B9);
    z = (z ^ (z >> 27)).wrapping_mul(0x94D0_49BB_1331_11EB);
    z ^ (z >> 31)
}

/// Mix several integers into one seed (order-sensitive).
pub fn mix(parts: &[u64]) -> u64 {
    let mut h = 0x243F_6A88_85A3_08D3u64;
    for &p in parts {
        h = splitmix64(h ^ splitmix64(p));
    }
    h
}

/// FNV-1a 64 over bytes (digests, fingerprints, signatures).
pub fn fnv1a(bytes: &[u8]) -> u64 {
    let mut h = 0xcbf2_9ce4_8422_2325u64;
    for &b in bytes {
        h ^= b as u64;
        h = h.wrapping_mul(0x0000_0100_0000_01B3);
    }
    h
}

/// Incremental FNV-1a hasher for fingerprints.
#[derive(Clone, Copy)]
pub struct Fnv(pub u64);
impl Default for Fnv {
    fn default() -> Self {
        Fnv(0xcbf2_9ce4_8422_2325)
    }
}
impl Fnv {
    pub fn new() -> Self {
        Self::default()
    }
    pub fn bytes(&mut self, bytes: &[u8]) -> &mut Self {
        for &b in bytes {
            self.0 ^= b as u64;
            self.0 = self.0.wrapping_mul(0x0000_0100_0000_01B3);
        }
        self
    }
    pub fn str(&mut self, s: &str) -> &mut Self {
        self.bytes(s.as_bytes()).bytes(&[0xff])
    }
    pub fn u64(&mut self, v: u64) -> &mut Self {
        self.bytes(&v.to_le_bytes())
    }
    pub fn f32(&mut self, v: f32) -> &mut Self {
        self.bytes(&v.to_bits().to_le_bytes())
    }
    pub fn finish(&self) -> u64 {
        self.0
    }
}

pub fn property_code(id: &str) -> u64 {
    fnv1a(id.as_bytes())
}

/// Stream identifiers (DESIGN §3.2).
pub mod stream {
    pub const WORKLOAD: u64 = 1;
    pub const SCHEDULE: u64 = 2;
    pub const DISK: u64 = 3;
    pub const SYSCALLS: u64 = 4;
    pub const CRASH: u64 = 5;
    pub const REWRITE: u64 = 6;
    pub const OPTIONS: u64 = 7;
}

/// xoshiro256** generator.
#[derive(Clone, Debug)]
pub struct Rng {
    s: [u64; 4],
}

impl Rng {
    pub fn new(seed: u64) -> Self {
        let mut x = seed;
        let mut s = [0u64; 4];
        for slot in s.iter_mut() {
            x = x.wrapping_add(0x9E37_79B9_7F4A_7C15);
            *slot = splitmix64(x);
        }
        if s == [0, 0, 0, 0] {
            s[0] = 1;
        }
        Rng { s }
    }

    /// Independent stream of a run (DESIGN §3.2).
    pub fn for_stream(run_seed: u64, stream_id: u64) -> Self {
        Rng::new(mix(&[run_seed, stream_id]))
    }

    #[inline]
    pub fn next_u64(&mut self) -> u64 {
        let result = self.s[1].wrapping_mul(5).rotate_left(7).wrapping_mul(9);
        let t = self.s[1] << 17;
        self.s[2] ^= self.s[0];
        self.s[3] ^= self.s[1];
        self.s[1] ^= self.s[2];
        self.s[0] ^= self.s[3];
        self.s[2] ^= t;
        self.s[3] = self.s[3].rotate_left(45);
        result
    }

    /// Uniform in 0..n (n > 0).
    #[inline]
    pub fn below(&mut self, n: u64) -> u64 {
        debug_assert!(n > 0);
        // multiply-shift; bias is irrelevant here (n is tiny compared with 2^64)
        ((self.next_u64() as u128 * n as u128) >> 64) as u64
    }

    #[inline]
    pub fn range(&mut self, lo: i64, hi_incl: i64) -> i64 {
        lo + self.below((hi_incl - lo + 1) as u64) as i64
    }

    #[inline]
    pub fn usize(&mut self, n: usize) -> usize {
        self.below(n as u64) as usize
    }

    /// True with probability p.
    #[inline]
    pub fn chance(&mut self, p: f64) -> bool {
        self.unit() < p
    }

    /// Uniform in [0,1).
    #[inline]
    pub fn unit(&mut self) -> f64 {
        (self.next_u64() >> 11) as f64 / (1u64 << 53) as f64
    }

    pub fn pick<'a, T>(&mut self, items: &'a [T]) -> &'a T {
        &items[self.usize(items.len())]
    }

    pub fn shuffle<T>(&mut self, items: &mut [T]) {
        for i in (1..items.len()).rev() {
            let j = self.usize(i + 1);
            items.swap(i, j);
        }
    }

    /// Random subset of `items` with each element kept with probability p; never empty if `nonempty`.
    pub fn subset<T: Clone>(&mut self, items: &[T], p: f64, nonempty: bool) -> Vec<T> {
        let mut out: Vec<T> = items.iter().filter(|_| self.chance(p)).cloned().collect();
        if out.is_empty() && nonempty && !items.is_empty() {
            out.push(self.pick(items).clone());
        }
        out
    }

    /// Log-uniform integer in 1..=max.
    pub fn log_uniform(&mut self, max: u64) -> u64 {
        let bits = 64 - max.leading_zeros() as u64; // number of bits of max
        let b = self.below(bits) + 1; // 1..=bits
        let hi = if b >= 64 { u64::MAX } else { (1u64 << b) - 1 };
        let lo = 1u64 << (b - 1);
        let v = lo + self.below(hi - lo + 1);
        v.min(max).max(1)
    }

    pub fn fill_bytes(&mut self, buf: &mut [u8]) {
        for chunk in buf.chunks_mut(8) {
            let v = self.next_u64().to_le_bytes();
            chunk.copy_from_slice(&v[..chunk.len()]);
        }
    }
}

#[cfg(test)]
mod tests {
    use super::*;
    #[test]
    fn deterministic() {
        let mut a = Rng::new(42);
        let mut b = Rng::new(42);
        for _ in 0..100 {
            assert_eq!(a.next_u64(), b.next_u64());
        }
        let mut c = Rng::new(43);
        assert_ne!(a.next_u64(), c.next_u64());
    }
    #[test]
    fn log_uniform_in_range() {
        let mut r = Rng::new(1);
        for _ in 0..10000 {
            let v = r.log_uniform(1_000_000_000);
            assert!(v >= 1 && v <= 1_000_000_000);
        }
    }
}
