//! C10 — results depend on what is declared, not on file layout or on the run (DESIGN §5 C10).

use serde::{Deserialize, Serialize};
use serde_json::{json, Value};

use crate::cmp::{compare, Scale};
use crate::engine::{Ctx, Exec, Property, Tier, Violation};
use crate::entropy::in_thread;
use crate::gen::*;
use crate::model::*;
use crate::rewrite::*;
use crate::rng::{stream, Fnv, Rng};
use crate::sut::{self, ErrKind, Flat};
use crate::worldp;

pub struct C10;

#[derive(Clone, Debug, Serialize, Deserialize)]
pub struct Scn {
    pub base: Building,
    pub base_layout: Layout,
    pub ops: Vec<RewriteOp>,
    pub rew_layout: Layout,
    /// Rendered texts (what is actually parsed; replay uses these).
    pub base_text: String,
    pub rew_text: String,
    pub cfg: EvalCfg,
    /// Entropy seeds: schedules of the fresh-thread executions of the base text.
    pub sched: Vec<u64>,
    /// Entropy seed of the thread that evaluates the base text twice.
    pub sched_repeat: u64,
    /// Entropy seeds of the executions of the rewritten text.
    pub sched_rew: Vec<u64>,
    /// Process world: entropy seeds of the CLI incarnations (empty = library world only).
    pub proc_seeds: Vec<u64>,
}

impl Scn {
    fn rerender(&mut self) {
        self.base_text = render(&self.base, &self.base_layout);
        let rb = apply(&self.base, &self.ops);
        self.rew_text = render(&rb, &self.rew_layout);
    }
}

#[derive(Clone, Debug)]
pub enum Status {
    /// flattened result, order signature, bit digest of totals; the flat's `meta` holds the parsed metadata
    Ok(Box<Flat>, u64, u64),
    Err(ErrKind),
    Panic(String),
}

impl Status {
    fn label(&self) -> String {
        match self {
            Status::Ok(..) => "Ok".into(),
            Status::Err(k) => format!("Err({:?})", k),
            Status::Panic(site) => format!("Panic({})", site),
        }
    }
}

pub fn eval_status(text: &str, cfg: &EvalCfg) -> Status {
    match sut::evaluate(text, cfg) {
        Ok(Ok((c, ep))) => {
            let mut flat = sut::flatten(&ep);
            flat.meta = c.meta.iter().map(|m| (m.key.clone(), m.value.clone())).collect();
            flat.meta.sort();
            Status::Ok(Box::new(flat), sut::order_signature(&ep), sut::totals_bits(&ep))
        }
        Ok(Err(e)) => Status::Err(e.kind),
        Err(p) => Status::Panic(p.site),
    }
}

fn site_of(mismatch: &str) -> String {
    // quantity name without step index and numbers: stable across minimisation
    let name = mismatch.split(':').next().unwrap_or("");
    let mut s = String::new();
    let mut in_br = false;
    for ch in name.chars() {
        match ch {
            '[' => in_br = true,
            ']' => in_br = false,
            _ if in_br => {}
            c => s.push(c),
        }
    }
    // carrier / service / source names vary with shrinking: keep only the structural path
    let parts: Vec<&str> = s.split('.').collect();
    let keep: Vec<&str> = parts
        .into_iter()
        .filter(|p| {
            !ALL_CARRIERS.contains(p) && !EPB_SERVICES.contains(p) && !PROD_SOURCES.contains(p) && *p != "NEPB" && *p != "COGEN"
        })
        .collect();
    keep.join(".")
}

fn compare_status(kind: &str, what: &str, a: &Status, b: &Status, sc: &Scale, ex: &mut Exec) -> Option<Violation> {
    match (a, b) {
        (Status::Ok(fa, ..), Status::Ok(fb, ..)) => {
            let rep = compare(fa, fb, sc, 0.0, 0.0);
            ex.count("comparisons", rep.compared);
            ex.count("skipped_ratio_comparisons", rep.skipped_ratios);
            ex.maxi("max_noise_in_eps_S", rep.max_noise);
            if fa.meta != fb.meta {
                return Some(Violation::new(
                    kind,
                    "metadata",
                    format!("{}: the declared metadata are read differently: {:?} vs {:?}", what, fa.meta, fb.meta),
                ));
            }
            if rep.ok() {
                None
            } else {
                Some(Violation::new(
                    kind,
                    site_of(&rep.mismatches[0]),
                    format!("{}: {} quantities differ beyond f32 rounding; first: {}", what, rep.mismatches.len(), rep.mismatches[..rep.mismatches.len().min(4)].join(" | ")),
                ))
            }
        }
        (Status::Err(x), Status::Err(y)) if x == y => None,
        (Status::Panic(x), Status::Panic(y)) if x == y => None,
        _ => Some(Violation::new(kind, "status", format!("{}: outcome {} vs {}", what, a.label(), b.label()))),
    }
}

impl Property for C10 {
    type Scn = Scn;
    fn id(&self) -> &'static str {
        "C10"
    }
    fn runs(&self, tier: Tier) -> u64 {
        match tier {
            Tier::Quick => 60_000,
            Tier::Thorough => 250_000,
        }
    }

    fn generate(&self, ctx: &Ctx, run_index: u64) -> Scn {
        let seed = ctx.run_seed(run_index);
        let mut w = Rng::for_stream(seed, stream::WORKLOAD);
        let shipped = shipped_cached();
        let (base, base_layout, base_text_override) = if !shipped.is_empty() && (run_index as usize) < shipped.len() {
            // shipped files: fixed members of the corpus (no structured description: rewritings are layout-only)
            (Building::default(), Layout::plain(), Some(shipped[run_index as usize].1.clone()))
        } else {
            let focus = match w.below(4) {
                0 => Focus::Aux,
                1 => Focus::Env,
                _ => Focus::General,
            };
            let p = gen_profile(&mut w, focus, ctx.thorough());
            let b = gen_building(&mut w, &p);
            let lay = gen_layout(&mut w, b.lines.len());
            (b, lay, None)
        };
        let mut rw = Rng::for_stream(seed, stream::REWRITE);
        let n_ops = 1 + rw.usize(4);
        let mut ops = Vec::new();
        for _ in 0..n_ops {
            ops.push(match rw.below(5) {
                0 => RewriteOp::Permute { seed: rw.next_u64() },
                1 | 2 => RewriteOp::Split { seed: rw.next_u64() },
                3 => RewriteOp::Renumber { seed: rw.next_u64() },
                _ => RewriteOp::ZeroId { explicit: rw.chance(0.5) },
            });
        }
        let rew_layout = gen_layout(&mut rw, base.lines.len() + 6);
        let mut o = Rng::for_stream(seed, stream::OPTIONS);
        let cfg = gen_evalcfg(&mut o, &base, base_text_override.is_none());
        let mut s = Rng::for_stream(seed, stream::SCHEDULE);
        let k = if ctx.thorough() { 16 } else { 4 };
        let sched: Vec<u64> = (0..k).map(|_| s.next_u64()).collect();
        let sched_repeat = s.next_u64();
        let sched_rew = vec![s.next_u64(), s.next_u64()];
        // process world for a fraction of the runs (it is ~100x slower per run)
        let proc_every = if ctx.thorough() { 40 } else { 60 };
        let proc_seeds =
            if ctx.sut_release.is_some() && run_index % proc_every == 0 { vec![s.next_u64(), s.next_u64()] } else { Vec::new() };
        let mut scn = Scn {
            base,
            base_layout,
            ops,
            rew_layout,
            base_text: String::new(),
            rew_text: String::new(),
            cfg,
            sched,
            sched_repeat,
            sched_rew,
            proc_seeds,
        };
        match base_text_override {
            Some(t) => {
                // layout-only rewriting of a shipped file: comment / blank lines, CRLF, BOM
                let mut rew = String::new();
                let had_bom = t.starts_with('\u{feff}');
                if scn.rew_layout.bom || (had_bom && run_index % 2 == 0) {
                    rew.push('\u{feff}');
                }
                let nl = if scn.rew_layout.crlf { "\r\n" } else { "\n" };
                for (i, line) in t.trim_start_matches('\u{feff}').lines().enumerate() {
                    if i > 0 && i % 3 == (run_index % 3) as usize {
                        rew.push_str("# comentario añadido");
                        rew.push_str(nl);
                        rew.push_str(nl);
                    }
                    rew.push_str("  ");
                    rew.push_str(line.trim_end_matches('\r'));
                    rew.push_str("   ");
                    rew.push_str(nl);
                }
                scn.base_text = t;
                scn.rew_text = rew;
            }
            None => scn.rerender(),
        }
        scn
    }

    fn execute(&self, ctx: &Ctx, scn: &Scn) -> Exec {
        let mut ex = Exec::default();
        let mut fp = Fnv::new();
        let area = scn.cfg.area as f64;
        // scale: from the structured description, or (shipped files) from the parsed text itself
        let sc = if scn.base.lines.is_empty() { scale_from_text(&scn.base_text, area) } else { Scale::of(&scn.base, area) };

        let mut statuses: Vec<Status> = Vec::new();
        for &sigma in &scn.sched {
            let (t, c) = (scn.base_text.clone(), scn.cfg.clone());
            statuses.push(in_thread(sigma, move || eval_status(&t, &c)));
        }
        let (t, c) = (scn.base_text.clone(), scn.cfg.clone());
        let (rep1, rep2) = in_thread(scn.sched_repeat, move || (eval_status(&t, &c), eval_status(&t, &c)));
        let mut rew_statuses: Vec<Status> = Vec::new();
        for &sigma in &scn.sched_rew {
            let (t, c) = (scn.rew_text.clone(), scn.cfg.clone());
            rew_statuses.push(in_thread(sigma, move || eval_status(&t, &c)));
        }

        let mut orders = std::collections::BTreeSet::new();
        let mut bits = std::collections::BTreeSet::new();
        for st in statuses.iter().chain([&rep1, &rep2]).chain(rew_statuses.iter()) {
            fp.str(&st.label());
            if let Status::Ok(_, o, b) = st {
                fp.u64(*o).u64(*b);
                orders.insert(*o);
                bits.insert(*b);
            }
        }
        ex.count("library_evaluations", (statuses.len() + 2 + rew_statuses.len()) as u64);
        ex.count("distinct_total_bit_patterns_within_run", bits.len() as u64);
        if matches!(statuses[0], Status::Err(_)) {
            ex.count("inputs_with_typed_error", 1);
        }
        if matches!(statuses[0], Status::Panic(_)) {
            ex.count("inputs_with_panic_on_all_schedules(C16's business)", 1);
        }

        let reference = &statuses[0];
        let mut violation = None;
        // what the file declares as metadata must be what is read, wherever the lines stand (structured inputs only)
        if !scn.base.lines.is_empty() || !scn.base.meta.is_empty() {
            if let Status::Ok(flat, ..) = reference {
                let mut declared: Vec<(String, String)> = scn
                    .base
                    .meta
                    .iter()
                    .map(|(k, v)| {
                        let key = match k.as_str() {
                            "Localizacion" => "CTE_LOCALIZACION",
                            "Area_ref" => "CTE_AREAREF",
                            "kexp" => "CTE_KEXP",
                            other => other,
                        };
                        (key.to_string(), v.trim().to_string())
                    })
                    .collect();
                declared.sort();
                if declared != flat.meta {
                    violation = Some(Violation::new(
                        "layout_dependence",
                        "declared-metadata",
                        format!("the file declares the metadata {:?} but {:?} are read", declared, flat.meta),
                    ));
                }
            }
        }
        for (i, st) in statuses.iter().enumerate().skip(1) {
            if violation.is_none() {
                violation = compare_status(
                    "schedule_dependence",
                    &format!("same text under entropy seeds {:#x} and {:#x}", scn.sched[0], scn.sched[i]),
                    reference,
                    st,
                    &sc,
                    &mut ex,
                );
            }
        }
        for (name, st) in [("first", &rep1), ("second", &rep2)] {
            if violation.is_none() {
                violation = compare_status(
                    "repeat_dependence",
                    &format!("{} of two evaluations in one thread (entropy seed {:#x})", name, scn.sched_repeat),
                    reference,
                    st,
                    &sc,
                    &mut ex,
                );
            }
        }
        for (i, st) in rew_statuses.iter().enumerate() {
            if violation.is_none() {
                violation = compare_status(
                    "layout_dependence",
                    &format!("rewritten text (ops {:?}) under entropy seed {:#x}", scn.ops, scn.sched_rew[i]),
                    reference,
                    st,
                    &sc,
                    &mut ex,
                );
            }
        }

        // process world
        if violation.is_none() && !scn.proc_seeds.is_empty() {
            if let Some(v) = worldp::c10_process_world(ctx, scn, &sc, &mut ex, &mut fp) {
                violation = Some(v);
            }
        }

        ex.order_sigs = orders.iter().copied().collect();
        let n_carriers = if scn.base.lines.is_empty() { 2 } else { scn.base.carriers().len() };
        let n_ids = if scn.base.lines.is_empty() { 2 } else { scn.base.ids().len() };
        if n_carriers >= 2 && n_ids >= 2 && orders.len() >= 2 {
            let mut h = Fnv::new();
            h.u64(if scn.base.lines.is_empty() { crate::rng::fnv1a(scn.base_text.as_bytes()) } else { scn.base.feature_sig() });
            for o in &orders {
                h.u64(*o);
            }
            ex.nontrivial = Some(h.finish());
        }
        ex.fingerprint = fp.finish();
        ex.violation = violation;
        ex
    }

    fn shrink(&self, scn: &Scn) -> Vec<Scn> {
        let mut out = Vec::new();
        if scn.base.lines.is_empty() {
            return out; // shipped file: no structured description to shrink
        }
        if !scn.proc_seeds.is_empty() {
            let mut n = scn.clone();
            n.proc_seeds.clear();
            out.push(n);
        }
        for nb in shrink_building(&scn.base) {
            let mut n = scn.clone();
            n.base = nb;
            n.rerender();
            out.push(n);
        }
        for i in 0..scn.ops.len() {
            let mut n = scn.clone();
            n.ops.remove(i);
            n.rerender();
            out.push(n);
        }
        for l in shrink_layout(&scn.base_layout) {
            let mut n = scn.clone();
            n.base_layout = l;
            n.rerender();
            out.push(n);
        }
        for l in shrink_layout(&scn.rew_layout) {
            let mut n = scn.clone();
            n.rew_layout = l;
            n.rerender();
            out.push(n);
        }
        for c in shrink_cfg(&scn.cfg) {
            let mut n = scn.clone();
            n.cfg = c;
            out.push(n);
        }
        if scn.sched.len() > 2 {
            for i in 1..scn.sched.len() {
                let mut n = scn.clone();
                n.sched = vec![scn.sched[0], scn.sched[i]];
                out.push(n);
            }
        }
        // smaller schedule seeds
        for (slot, cur) in scn.sched.iter().enumerate() {
            if *cur >= 64 {
                for small in 0..8u64 {
                    let mut n = scn.clone();
                    n.sched[slot] = small;
                    out.push(n);
                }
            }
        }
        out
    }

    fn sample(&self, scn: &Scn) -> Value {
        json!({
            "base_text": truncate(&scn.base_text, 1500),
            "rewriting_ops": scn.ops,
            "rewritten_text": truncate(&scn.rew_text, 1500),
            "cfg": scn.cfg,
            "schedules(entropy seeds)": scn.sched.iter().map(|s| format!("{:#x}", s)).collect::<Vec<_>>(),
            "process_world_entropy_seeds": scn.proc_seeds.iter().map(|s| format!("{:#x}", s)).collect::<Vec<_>>(),
        })
    }

    fn rule(&self) -> String {
        "Run = one generated (or shipped) components file b + evaluation options, evaluated by the real library under K seeded hash \
         schedules in fresh threads (K=4 quick, 16 thorough), twice inside one thread, and as a rewriting r(b) (1-4 of: permute lines, \
         split a component into 2-4 lines adding up exactly, renumber ids injectively, id 0 explicit/omitted; plus a fresh text layout) \
         under 2 more schedules; every 60th (40th thorough) run also through the real CLI binary in 2 processes per spelling with the \
         entropy seam preloaded. All outcomes must agree within the f32 tolerance of DESIGN §3.5. Non-trivial = building has >=2 carriers \
         and >=2 system ids AND >=2 distinct observable order signatures (balance_cr key order, by-service map orders, same-id AUX order) \
         were realised among its executions; distinct = distinct (input feature signature, set of order signatures)."
            .into()
    }

    fn assumptions(&self) -> Vec<String> {
        vec![
            "std reads hash keys through the weak getrandom symbol; verified by a self-test at every start (exit 2 otherwise)".into(),
            "two results are 'the same up to floating-point rounding' iff they agree within 64*eps_f32*S (S = sum|declared energy| * max(1,|factor|)); defects smaller than that are not seen".into(),
            "schedules are sampled (random SipHash keys), not enumerated".into(),
        ]
    }

    fn extra_evidence(&self) -> Value {
        json!({
            "real_components": ["cteepbd library (parse, normalize, factors, strip, energy_performance, DHW indicator)", "cteepbd CLI binary (release profile) in the process-world subset", "Rust std HashMap/HashSet + SipHash", "glibc, kernel tmpfs"],
            "stubbed_components": ["entropy source behind RandomState (getrandom), in-process and via LD_PRELOAD"],
            "fault_kinds": "none injected for C10 (schedule half of the technique only); the process world runs fault-free plans",
        })
    }
}

pub fn truncate(s: &str, n: usize) -> String {
    if s.len() <= n {
        s.to_string()
    } else {
        let mut cut = n;
        while !s.is_char_boundary(cut) {
            cut -= 1;
        }
        format!("{}… [{} bytes]", &s[..cut], s.len())
    }
}

fn shipped_cached() -> &'static Vec<(String, String)> {
    static CACHE: std::sync::OnceLock<Vec<(String, String)>> = std::sync::OnceLock::new();
    CACHE.get_or_init(shipped_component_files)
}

/// Scale for texts without structured description (shipped files): a deliberately simple reader of
/// numeric fields, independent of the SUT's parser.
pub fn scale_from_text(text: &str, area: f64) -> Scale {
    let mut e_t: Vec<f64> = Vec::new();
    let mut n_an = 0.0f64;
    for line in text.lines() {
        let l = line.trim().trim_start_matches('\u{feff}');
        if l.starts_with('#') || l.is_empty() || l.contains("SALIDA") {
            continue;
        }
        let data = l.split('#').next().unwrap_or("");
        if l.contains("DEMANDA") {
            n_an += data.split(',').filter_map(|t| t.trim().parse::<f64>().ok()).filter(|v| v.is_finite()).map(f64::abs).sum::<f64>();
            continue;
        }
        let nums: Vec<f64> = data.split(',').rev().map(str::trim).map_while(|t| t.parse::<f64>().ok()).collect();
        // nums is reversed and may include the id if the line is only numbers; ids come first so they
        // are only swallowed when every field is numeric, which no component line is
        let n = nums.len();
        if e_t.len() < n {
            e_t.resize(n, 0.0);
        }
        for (i, v) in nums.iter().rev().enumerate() {
            if v.is_finite() {
                e_t[i] += v.abs();
            }
        }
    }
    Scale { e_an: e_t.iter().sum(), e_t, n_an, area }
}
