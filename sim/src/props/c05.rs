//! C05 — parsing keeps declared data and completes ambient/solar production exactly (DESIGN §5 C05).

use std::collections::BTreeMap;

use cteepbd::types::{Energy, HasValues};
use cteepbd::Components;
use serde::{Deserialize, Serialize};
use serde_json::{json, Value};

use crate::cmp::EPS;
use crate::engine::{Ctx, Exec, Property, Tier, Violation};
use crate::entropy::{guard, in_thread};
use crate::gen::*;
use crate::model::*;
use crate::props::c10::truncate;
use crate::rewrite::*;
use crate::rng::{stream, Fnv, Rng};
use crate::sut;
use crate::worldp::{self, DiskImage, Incarnation, PlanEntry, PlanKind};
use crate::faults::Blob;

pub struct C05;

#[derive(Clone, Debug, Serialize, Deserialize)]
pub struct Scn {
    pub b: Building,
    pub layout: Layout,
    pub text: String,
    /// Entropy seeds of the parse executions.
    pub sched: Vec<u64>,
    /// Entropy seed of the thread that re-normalizes the parsed set.
    pub sched_renorm: u64,
    /// Process world (a subset of the runs): the file is read by the real program through system calls that
    /// are interrupted, shortened, or preceded by a status call that announces no size.
    #[serde(default)]
    pub proc_part: Option<ProcPart>,
}

#[derive(Clone, Debug, Serialize, Deserialize)]
pub struct ProcPart {
    pub entropy: u64,
    pub plan: Vec<PlanEntry>,
    pub loc: String,
}

/// Canonical key of a non-AUX component: (kind, id, tags, comment, value bits).
pub type Key = (String, i32, String, String, Vec<u32>);

pub fn key_of_line(l: &Line) -> Option<Key> {
    let bits: Vec<u32> = l.f32s().iter().map(|v| v.to_bits()).collect();
    match &l.kind {
        Kind::Used { service, carrier } => Some(("CONSUMO".into(), l.id, format!("{},{}", service, carrier), l.comment.clone(), bits)),
        Kind::Prod { source } => Some(("PRODUCCION".into(), l.id, source.clone(), l.comment.clone(), bits)),
        Kind::Out { service } => Some(("SALIDA".into(), l.id, service.clone(), l.comment.clone(), bits)),
        _ => None,
    }
}

pub fn key_of_comp(c: &Energy) -> Option<Key> {
    let bits: Vec<u32> = c.values().iter().map(|v| v.to_bits()).collect();
    match c {
        Energy::Used(e) => Some(("CONSUMO".into(), e.id, format!("{},{}", e.service, e.carrier), e.comment.clone(), bits)),
        Energy::Prod(e) => Some(("PRODUCCION".into(), e.id, e.source.to_string(), e.comment.clone(), bits)),
        Energy::Out(e) => Some(("SALIDA".into(), e.id, e.service.to_string(), e.comment.clone(), bits)),
        Energy::Aux(_) => None,
    }
}

/// Reference model: expected completion per (carrier, id): (deficit per step, tolerance per step).
pub struct Expected {
    pub deficits: BTreeMap<(String, i32), (Vec<f64>, Vec<f64>)>,
}

pub fn reference(b: &Building) -> Expected {
    let n = b.n_steps();
    let mut deficits = BTreeMap::new();
    for c in ["EAMBIENTE", "TERMOSOLAR"] {
        for id in b.ids() {
            let mut used = vec![0.0f64; n];
            let mut prod = vec![0.0f64; n];
            let mut scale = vec![0.0f64; n];
            let mut has_use = false;
            for l in b.lines.iter().filter(|l| l.id == id) {
                match &l.kind {
                    Kind::Used { carrier, .. } if carrier == c => {
                        has_use = true;
                        for (t, v) in l.f64s().iter().enumerate().take(n) {
                            used[t] += v;
                            scale[t] += v.abs();
                        }
                    }
                    Kind::Prod { source } if source == c => {
                        for (t, v) in l.f64s().iter().enumerate().take(n) {
                            prod[t] += v;
                            scale[t] += v.abs();
                        }
                    }
                    _ => {}
                }
            }
            if has_use {
                let d: Vec<f64> = (0..n).map(|t| (used[t] - prod[t]).max(0.0)).collect();
                let tol: Vec<f64> = scale.iter().map(|s| 4.0 * EPS * s).collect();
                deficits.insert((c.to_string(), id), (d, tol));
            }
        }
    }
    Expected { deficits }
}

#[derive(Debug)]
struct Parsed {
    /// (declared-matched) keys as multiset
    order_sig: u64,
    extras: Vec<(String, i32, Vec<f64>)>,
    comps: Components,
}

/// Check one parsed set against the declared data and the reference model.
fn check_parsed(b: &Building, exp: &Expected, comps: Components) -> Result<Parsed, Violation> {
    let n = b.n_steps();
    // (a) declared lines present exactly once, unaltered
    let mut declared: BTreeMap<Key, i64> = BTreeMap::new();
    for l in &b.lines {
        if let Some(k) = key_of_line(l) {
            *declared.entry(k).or_insert(0) += 1;
        }
    }
    let mut extras_raw: Vec<&Energy> = Vec::new();
    let mut osig = Fnv::new();
    for c in &comps.data {
        if let Some(k) = key_of_comp(c) {
            match declared.get_mut(&k) {
                Some(cnt) if *cnt > 0 => *cnt -= 1,
                _ => extras_raw.push(c),
            }
            osig.u64(c.id() as u64);
        }
    }
    if let Some((k, cnt)) = declared.iter().find(|(_, c)| **c > 0) {
        return Err(Violation::new(
            "declared_line_lost_or_altered",
            k.0.clone(),
            format!("{} declared {} line(s) of system {} [{}] (comment {:?}) not found unaltered among the parsed components", cnt, k.0, k.1, k.2, k.3),
        ));
    }
    // demands
    for srv in ["ACS", "CAL", "REF"] {
        let lines: Vec<&Line> = b.lines.iter().filter(|l| matches!(&l.kind, Kind::Need { service } if service == srv)).collect();
        let got = match srv {
            "ACS" => &comps.needs.ACS,
            "CAL" => &comps.needs.CAL,
            _ => &comps.needs.REF,
        };
        if lines.is_empty() {
            if got.is_some() {
                return Err(Violation::new("demand_altered", srv, format!("demand for {} reported but never declared", srv)));
            }
            continue;
        }
        let len = lines[0].values.len();
        let mut sum = vec![0.0f64; len];
        let mut scale = vec![0.0f64; len];
        for l in &lines {
            for (t, v) in l.f64s().iter().enumerate().take(len) {
                sum[t] += v;
                scale[t] += v.abs();
            }
        }
        match got {
            None => return Err(Violation::new("demand_altered", srv, format!("declared demand for {} was dropped", srv))),
            Some(vs) => {
                if vs.len() != len {
                    return Err(Violation::new("demand_altered", srv, format!("demand for {} has {} steps, declared {}", srv, vs.len(), len)));
                }
                for t in 0..len {
                    if (vs[t] as f64 - sum[t]).abs() > 4.0 * EPS * scale[t] {
                        return Err(Violation::new(
                            "demand_altered",
                            srv,
                            format!("demand for {} at step {}: {} but declared lines add up to {}", srv, t, vs[t], sum[t]),
                        ));
                    }
                }
            }
        }
    }
    // (b) everything not declared is exactly the expected completion
    let mut extras: Vec<(String, i32, Vec<f64>)> = Vec::new();
    for c in extras_raw {
        match c {
            Energy::Prod(e) if matches!(e.source.to_string().as_str(), "EAMBIENTE" | "TERMOSOLAR") => {
                extras.push((e.source.to_string(), e.id, e.values.iter().map(|v| *v as f64).collect()));
            }
            other => {
                return Err(Violation::new(
                    "undeclared_component",
                    "non-completion",
                    format!("parsed set contains a component that was neither declared nor is an ambient/solar completion: {}", other),
                ))
            }
        }
    }
    let mut seen: BTreeMap<(String, i32), usize> = BTreeMap::new();
    for (src, id, vals) in &extras {
        let k = (src.clone(), *id);
        *seen.entry(k.clone()).or_insert(0) += 1;
        if seen[&k] > 1 {
            return Err(Violation::new("completion_wrong", "duplicate", format!("more than one automatic {} production for system {}", src, id)));
        }
        match exp.deficits.get(&k) {
            None => {
                return Err(Violation::new(
                    "completion_wrong",
                    "no-use",
                    format!("automatic {} production {:?} added for system {} which declares no use of it", src, vals, id),
                ))
            }
            Some((d, tol)) => {
                if vals.len() != n {
                    return Err(Violation::new("completion_wrong", "length", format!("automatic {} production for system {} has {} steps, file has {}", src, id, vals.len(), n)));
                }
                for t in 0..n {
                    if (vals[t] - d[t]).abs() > tol[t] {
                        return Err(Violation::new(
                            "completion_wrong",
                            "value",
                            format!(
                                "automatic {} production for system {} at step {}: {} but max(0, own use - own declared production) = {}",
                                src, id, t, vals[t], d[t]
                            ),
                        ));
                    }
                }
            }
        }
    }
    for (k, (d, tol)) in &exp.deficits {
        let significant = (0..d.len()).any(|t| d[t] > tol[t]);
        if significant && !seen.contains_key(k) {
            return Err(Violation::new(
                "completion_wrong",
                "missing",
                format!("system {} uses {} beyond its declared production (deficit {:?}) but no production was added for it", k.1, k.0, d),
            ));
        }
    }
    Ok(Parsed { order_sig: osig.finish(), extras, comps })
}

/// (e) normalizing the normalized set changes nothing.
fn check_idempotent(b: &Building, exp: &Expected, first: &Components, second: &Components) -> Option<Violation> {
    let mut keys: BTreeMap<Key, i64> = BTreeMap::new();
    for c in &first.data {
        if let Some(k) = key_of_comp(c) {
            *keys.entry(k).or_insert(0) += 1;
        }
    }
    for c in &second.data {
        if let Some(k) = key_of_comp(c) {
            match keys.get_mut(&k) {
                Some(cnt) if *cnt > 0 => *cnt -= 1,
                _ => {
                    // a new component: only acceptable as rounding noise of a completion
                    let ok = match c {
                        Energy::Prod(e) => {
                            let k2 = (e.source.to_string(), e.id);
                            match exp.deficits.get(&k2) {
                                Some((_, tol)) => e.values.iter().enumerate().all(|(t, v)| (*v as f64).abs() <= tol.get(t).copied().unwrap_or(0.0)),
                                None => false,
                            }
                        }
                        _ => false,
                    };
                    if !ok {
                        return Some(Violation::new(
                            "not_idempotent",
                            "added",
                            format!("normalizing the normalized set added or changed a component: {}", c),
                        ));
                    }
                }
            }
        }
    }
    if let Some((k, _)) = keys.iter().find(|(_, c)| **c > 0) {
        return Some(Violation::new(
            "not_idempotent",
            "removed",
            format!("normalizing the normalized set removed or changed {} of system {} [{}]", k.0, k.1, k.2),
        ));
    }
    // AUX: per (id, service) sums unchanged up to rounding
    let n = b.n_steps();
    let aux_sums = |c: &Components| -> BTreeMap<(i32, String), Vec<f64>> {
        let mut m: BTreeMap<(i32, String), Vec<f64>> = BTreeMap::new();
        for e in &c.data {
            if let Energy::Aux(a) = e {
                let v = m.entry((a.id, a.service.to_string())).or_insert_with(|| vec![0.0; n]);
                for (t, x) in a.values.iter().enumerate().take(n) {
                    v[t] += *x as f64;
                }
            }
        }
        m
    };
    let (a1, a2) = (aux_sums(first), aux_sums(second));
    let mut scale: BTreeMap<i32, Vec<f64>> = BTreeMap::new();
    for ((id, _), v) in &a1 {
        let s = scale.entry(*id).or_insert_with(|| vec![0.0; n]);
        for t in 0..n {
            s[t] += v[t].abs();
        }
    }
    let keys: std::collections::BTreeSet<&(i32, String)> = a1.keys().chain(a2.keys()).collect();
    for k in keys {
        let zero = vec![0.0; n];
        let (v1, v2) = (a1.get(k).unwrap_or(&zero), a2.get(k).unwrap_or(&zero));
        for t in 0..n {
            // (8 + 2n): at steps without output the split comes from annual sums over all n steps
            let tol = (8.0 + 2.0 * n as f64) * EPS * scale.get(&k.0).map(|s| s[t]).unwrap_or(0.0);
            if (v1[t] - v2[t]).abs() > tol {
                return Some(Violation::new(
                    "not_idempotent",
                    "aux",
                    format!("normalizing the normalized set changed the auxiliary energy of system {} for {} at step {}: {} -> {}", k.0, k.1, t, v1[t], v2[t]),
                ));
            }
        }
    }
    None
}

enum Outcome {
    Ok(Parsed),
    Err(sut::ErrKind, String),
    Panic(String, String),
    Bad(Violation),
}

/// `cteepbd -c in.csv -l LOC --oc oc.csv` under benign read faults against a fault-free twin (same argv, same
/// entropy seed, fresh disk): same status, byte-identical saved components.
fn process_world(ctx: &Ctx, scn: &Scn, pp: &ProcPart, ex: &mut Exec, fp: &mut Fnv) -> Option<Violation> {
    let image = DiskImage::default().with_file("in.csv", Blob::Utf8(scn.text.clone()));
    let argv: Vec<String> = ["-c", "in.csv", "-l", pp.loc.as_str(), "--oc", "oc.csv"].iter().map(|a| a.to_string()).collect();
    let run = |plan: Vec<PlanEntry>, ex: &mut Exec, fp: &mut Fnv| {
        let disk = worldp::Disk::create(ctx, &image);
        let out = worldp::run_incarnation(ctx, &disk, &Incarnation { argv: argv.clone(), entropy: pp.entropy, plan, debug_build: false }, 0);
        worldp::outcome_digest(fp, &out);
        ex.count("process_incarnations", 1);
        ex.count("tracked_syscalls", out.trace.len() as u64);
        for f in out.faults_fired() {
            ex.count(&format!("fault_fired:{}", f), 1);
        }
        let saved = disk.read("oc.csv");
        (out, saved)
    };
    let (twin, twin_saved) = run(Vec::new(), ex, fp);
    let (main, main_saved) = run(pp.plan.clone(), ex, fp);
    if main.faults_fired().is_empty() {
        ex.count("process_runs_without_a_delivered_fault", 1);
    }
    if twin.timed_out || twin.panicked || twin.signal.is_some() {
        // the program dies on this input whatever the I/O does: C16's business
        ex.count("process_runs_where_the_fault_free_twin_died", 1);
        return None;
    }
    let faults = main.faults_fired().join(", ");
    if main.status_label() != twin.status_label() {
        return Some(Violation::new(
            "io_dependence",
            "status",
            format!("`cteepbd {}` ended with {} under benign read faults [{}] but with {} without them", argv.join(" "), main.status_label(), faults, twin.status_label()),
        ));
    }
    if main_saved != twin_saved {
        let (a, b) = (main_saved.unwrap_or_default(), twin_saved.unwrap_or_default());
        let (ta, tb) = (String::from_utf8_lossy(&a).into_owned(), String::from_utf8_lossy(&b).into_owned());
        let missing: Vec<&str> = tb.lines().filter(|l| !ta.lines().any(|m| m == *l)).take(3).collect();
        return Some(Violation::new(
            "io_dependence",
            "oc.csv",
            format!(
                "the components saved by `cteepbd {}` differ when the file is read under benign faults [{}]: {} lines instead of {}; e.g. missing {:?}",
                argv.join(" "),
                faults,
                ta.lines().count(),
                tb.lines().count(),
                missing
            ),
        ));
    }
    None
}

impl Property for C05 {
    type Scn = Scn;
    fn id(&self) -> &'static str {
        "C05"
    }
    fn runs(&self, tier: Tier) -> u64 {
        match tier {
            Tier::Quick => 150_000,
            Tier::Thorough => 1_500_000,
        }
    }

    fn generate(&self, ctx: &Ctx, run_index: u64) -> Scn {
        let seed = ctx.run_seed(run_index);
        let mut w = Rng::for_stream(seed, stream::WORKLOAD);
        let p = gen_profile(&mut w, Focus::Env, ctx.thorough());
        let b = gen_building(&mut w, &p);
        let layout = gen_layout(&mut w, b.lines.len());
        let text = render(&b, &layout);
        let mut s = Rng::for_stream(seed, stream::SCHEDULE);
        let k = if ctx.thorough() { 16 } else { 4 };
        let sched: Vec<u64> = (0..k).map(|_| s.next_u64()).collect();
        let sched_renorm = s.next_u64();
        let proc_part = if ctx.sut_release.is_some() && run_index % 40 == 0 {
            let mut y = Rng::for_stream(seed, stream::SYSCALLS);
            let image = DiskImage::default().with_file("in.csv", Blob::Utf8(text.clone()));
            let argv: Vec<String> = ["-c", "in.csv"].iter().map(|a| a.to_string()).collect();
            let shape = crate::props::c16::predicted_shape(&argv, &image);
            let mut plan = worldp::benign_plan(&mut y, &shape, 0.6);
            if y.chance(0.35) {
                // the status call announces no size: a pipe, or a procfs-like file
                plan.push(PlanEntry { idx: 0, kind: PlanKind::StatSize(0) });
            }
            if y.chance(0.25) {
                plan.retain(|e| matches!(e.kind, PlanKind::StatSize(_)));
                plan.push(PlanEntry { idx: y.next_u64(), kind: PlanKind::Measured(0) });
            }
            Some(ProcPart { entropy: s.next_u64(), plan, loc: w.pick(&["PENINSULA", "CANARIAS", "BALEARES", "CEUTAMELILLA"]).to_string() })
        } else {
            None
        };
        Scn { b, layout, text, sched, sched_renorm, proc_part }
    }

    fn execute(&self, ctx: &Ctx, scn: &Scn) -> Exec {
        let mut ex = Exec::default();
        let mut fp = Fnv::new();
        let exp = reference(&scn.b);
        let expect_parse_error = crate::props::c06::expects_possible_error(&scn.b);
        let mut violation: Option<Violation> = None;
        let mut first_ok: Option<Components> = None;
        let mut orders = std::collections::BTreeSet::new();
        for &sigma in &scn.sched {
            let text = scn.text.clone();
            let b = scn.b.clone();
            let exp2 = reference(&scn.b);
            let out = in_thread(sigma, move || match sut::parse_components(&text) {
                Ok(Ok(c)) => match check_parsed(&b, &exp2, c) {
                    Ok(p) => Outcome::Ok(p),
                    Err(v) => Outcome::Bad(v),
                },
                Ok(Err(e)) => Outcome::Err(e.kind, e.msg),
                Err(p) => Outcome::Panic(p.site, p.message),
            });
            ex.count("parse_executions", 1);
            match out {
                Outcome::Ok(p) => {
                    fp.str("ok").u64(p.order_sig).u64(p.extras.len() as u64);
                    for (s, id, v) in &p.extras {
                        fp.str(s).u64(*id as u64);
                        for x in v {
                            fp.u64(x.to_bits());
                        }
                    }
                    orders.insert(p.order_sig);
                    if first_ok.is_none() {
                        first_ok = Some(p.comps);
                    }
                }
                Outcome::Err(kind, msg) => {
                    fp.str(&format!("err{:?}", kind));
                    ex.count("typed_errors", 1);
                    if !expect_parse_error && violation.is_none() {
                        violation = Some(Violation::new(
                            "unexpected_error",
                            format!("{:?}", kind),
                            format!("a valid components file was rejected: {}", msg),
                        ));
                    }
                }
                Outcome::Panic(site, msg) => {
                    fp.str("panic").str(&site);
                    if violation.is_none() {
                        violation = Some(Violation::new("panic", site, format!("parsing panicked: {}", msg)));
                    }
                }
                Outcome::Bad(v) => {
                    fp.str("bad").str(&v.kind).str(&v.site);
                    if violation.is_none() {
                        let mut v = v;
                        v.message = format!("under entropy seed {:#x}: {}", sigma, v.message);
                        violation = Some(v);
                    }
                }
            }
        }
        // (e) idempotence under a further schedule
        if violation.is_none() {
            if let Some(c1) = first_ok {
                let c1b = c1.clone();
                let r = in_thread(scn.sched_renorm, move || guard(|| c1b.normalize()));
                ex.count("renormalizations", 1);
                match r {
                    Ok(Ok(c2)) => {
                        fp.str("renorm-ok").u64(c2.data.len() as u64);
                        violation = check_idempotent(&scn.b, &exp, &c1, &c2);
                    }
                    Ok(Err(e)) => {
                        fp.str("renorm-err");
                        violation = Some(Violation::new("not_idempotent", "error", format!("normalizing the normalized set failed: {}", e)));
                    }
                    Err(p) => {
                        fp.str("renorm-panic");
                        violation = Some(Violation::new("panic", p.site, format!("re-normalizing panicked: {}", p.message)));
                    }
                }
            }
        }
        // process world: what the program reads must not depend on how the reads went
        if violation.is_none() {
            if let Some(pp) = &scn.proc_part {
                violation = process_world(ctx, scn, pp, &mut ex, &mut fp);
            }
        }
        // evidence: non-trivial = >= 2 ids on one of the two carriers and a significant deficit
        let mut ids_per_carrier: BTreeMap<&str, std::collections::BTreeSet<i32>> = BTreeMap::new();
        for (k, _) in &exp.deficits {
            ids_per_carrier.entry(k.0.as_str()).or_default().insert(k.1);
        }
        let significant = exp.deficits.values().any(|(d, tol)| (0..d.len()).any(|t| d[t] > tol[t]));
        if ids_per_carrier.values().any(|s| s.len() >= 2) && significant {
            let mut h = Fnv::new();
            h.u64(scn.b.feature_sig());
            // which (carrier,id) pairs have deficit / surplus / exact
            for (k, (d, tol)) in &exp.deficits {
                h.str(&k.0).u64(k.1 as u64).u64((0..d.len()).filter(|&t| d[t] > tol[t]).count() as u64);
            }
            for o in &orders {
                h.u64(*o);
            }
            ex.nontrivial = Some(h.finish());
        }
        ex.order_sigs = orders.into_iter().collect();
        ex.fingerprint = fp.finish();
        ex.violation = violation;
        ex
    }

    fn shrink(&self, scn: &Scn) -> Vec<Scn> {
        let mut out = Vec::new();
        if scn.sched.len() > 1 {
            for i in 0..scn.sched.len() {
                let mut n = scn.clone();
                n.sched = vec![scn.sched[i]];
                out.push(n);
            }
        }
        for nb in shrink_building(&scn.b) {
            let mut n = scn.clone();
            n.b = nb;
            n.text = render(&n.b, &n.layout);
            out.push(n);
        }
        for l in shrink_layout(&scn.layout) {
            let mut n = scn.clone();
            n.layout = l;
            n.text = render(&n.b, &n.layout);
            out.push(n);
        }
        if let Some(pp) = &scn.proc_part {
            let mut n = scn.clone();
            n.proc_part = None;
            out.push(n);
            for i in 0..pp.plan.len() {
                let mut n = scn.clone();
                n.proc_part.as_mut().unwrap().plan.remove(i);
                out.push(n);
            }
        }
        for (slot, cur) in scn.sched.iter().enumerate() {
            if *cur >= 64 {
                for small in 0..8u64 {
                    let mut n = scn.clone();
                    n.sched[slot] = small;
                    out.push(n);
                }
            }
        }
        out
    }

    fn sample(&self, scn: &Scn) -> Value {
        json!({
            "text": truncate(&scn.text, 2000),
            "schedules(entropy seeds)": scn.sched.iter().map(|s| format!("{:#x}", s)).collect::<Vec<_>>(),
            "expected_completions": reference(&scn.b).deficits.iter().map(|(k, (d, _))| json!({"carrier": k.0, "id": k.1, "deficit": d})).collect::<Vec<_>>(),
        })
    }

    fn rule(&self) -> String {
        "Run = one generated components file with EAMBIENTE/TERMOSOLAR use (production missing / partial / exact / surplus / one hundredth \
         short / unrelated / declared on another system / production without use; ids incl. negative, extreme and repeated; 1-6 systems; \
         legacy lines), parsed by the real library under K seeded hash schedules in fresh threads (K=4 quick, 16 thorough) and checked \
         against a reference model built from the generator's structured description (declared lines present exactly once bit-for-bit; \
         demands summed; undeclared components = exactly one production per (carrier,id) with significant own deficit, values within 4 ulp \
         of the sums involved); then Components::normalize re-applied under a further schedule must change nothing. Non-trivial = the file \
         has >=2 distinct ids using one of the two carriers AND at least one significant deficit; distinct = distinct (input feature \
         signature, per-(carrier,id) deficit pattern, observed component-order signatures)."
            .into()
    }

    fn assumptions(&self) -> Vec<String> {
        vec![
            "ground truth is the generator's structured description of what it printed, never the SUT's parser; token values are converted with std's f32 parser".into(),
            "'use' of a system includes every CONSUMO line of the carrier with that id (any service), as the code and the statement's 'own use' read".into(),
            "a deficit below 4*eps_f32*(sum|use|+sum|production|) is rounding noise: its completion may be present or absent".into(),
            "library world: no faults (library code without I/O, only the schedule half of the technique applies); process world (1 run in 40): the real program reads the file through interrupted and shortened reads and after a status call that announces no size, and must save exactly what a fault-free twin saves".into(),
        ]
    }

    fn extra_evidence(&self) -> Value {
        json!({
            "real_components": ["cteepbd library: FromStr for Components (all line parsers), Components::normalize", "cteepbd binary (release) for the process-world subset: readfile, parse, --oc"],
            "stubbed_components": ["entropy source behind RandomState (getrandom)", "LD_PRELOAD pass-through layer on the input file's open/read/statx"],
            "fault_kinds": "library world: none; process world: EINTR on open/read, short reads, announced size 0 (see counters fault_fired:*)",
        })
    }
}
