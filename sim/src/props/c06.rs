//! C06 — all declared auxiliary electricity is counted once, for the right services (DESIGN §5 C06).

use std::collections::{BTreeMap, BTreeSet};

use cteepbd::types::{Carrier, Energy, Service};
use cteepbd::Components;
use serde::{Deserialize, Serialize};
use serde_json::{json, Value};

use crate::cmp::EPS;
use crate::engine::{Ctx, Exec, Property, Tier, Violation};
use crate::entropy::in_thread;
use crate::gen::*;
use crate::model::*;
use crate::props::c10::truncate;
use crate::rewrite::*;
use crate::rng::{stream, Fnv, Rng};
use crate::sut;

pub struct C06;

#[derive(Clone, Debug, Serialize, Deserialize)]
pub struct Scn {
    pub b: Building,
    pub layout: Layout,
    pub text: String,
    pub cfg: EvalCfg,
    /// Entropy seeds of the parse executions.
    pub sched: Vec<u64>,
    /// Entropy seed of the evaluation thread.
    pub sched_eval: u64,
}

#[derive(Clone, Debug, PartialEq)]
pub enum SysClass {
    /// Exactly one service among its CONSUMO lines and it is an EPB service.
    Single(String),
    /// Two or more services, all EPB.
    Multi,
    /// The stated rule does not determine the attribution: no CONSUMO line, or NEPB / COGEN among them.
    Ambiguous,
}

#[derive(Clone, Debug)]
pub struct SysModel {
    pub id: i32,
    pub class: SysClass,
    /// declared auxiliary energy per step (sum of the AUX lines) and sum of magnitudes
    pub aux: Vec<f64>,
    pub aux_abs: Vec<f64>,
    /// |output| per service per step
    pub out: BTreeMap<String, Vec<f64>>,
    pub out_tot: Vec<f64>,
}

impl SysModel {
    /// Tolerance factor (in units of eps*aux) at step t: `base`, plus 2n at a step without output, where a
    /// split can only come from annual sums over all n steps (f32 sums of n terms agree only within n*eps).
    pub fn tol_factor(&self, t: usize, base: f64) -> f64 {
        if self.out_tot.get(t).copied().unwrap_or(0.0) <= 0.0 {
            base + 2.0 * self.out_tot.len() as f64
        } else {
            base
        }
    }
    pub fn aux_sum(&self) -> f64 {
        self.aux.iter().sum()
    }
    pub fn out_sum(&self) -> f64 {
        self.out_tot.iter().sum()
    }
    /// The stated rule cannot attribute this system's auxiliaries: only "typed error or every kWh
    /// still present" is required.
    pub fn relaxed(&self) -> bool {
        match self.class {
            SysClass::Ambiguous => true,
            SysClass::Multi => self.out_sum() == 0.0,
            SysClass::Single(_) => false,
        }
    }
}

pub fn reference(b: &Building) -> Vec<SysModel> {
    let n = b.n_steps();
    let mut out = Vec::new();
    for id in b.ids() {
        let lines: Vec<&Line> = b.lines.iter().filter(|l| !l.kind.is_need() && l.id == id).collect();
        if !lines.iter().any(|l| l.kind == Kind::Aux) {
            continue;
        }
        let mut services: BTreeSet<String> = BTreeSet::new();
        let mut aux = vec![0.0; n];
        let mut aux_abs = vec![0.0; n];
        let mut outm: BTreeMap<String, Vec<f64>> = BTreeMap::new();
        for l in &lines {
            match &l.kind {
                Kind::Used { service, .. } => {
                    services.insert(service.clone());
                }
                Kind::Aux => {
                    for (t, v) in l.f64s().iter().enumerate().take(n) {
                        aux[t] += v;
                        aux_abs[t] += v.abs();
                    }
                }
                Kind::Out { service } => {
                    let e = outm.entry(service.clone()).or_insert_with(|| vec![0.0; n]);
                    for (t, v) in l.f64s().iter().enumerate().take(n) {
                        e[t] += v.abs();
                    }
                }
                _ => {}
            }
        }
        let all_epb = services.iter().all(|s| EPB_SERVICES.contains(&s.as_str()));
        let class = if services.is_empty() || !all_epb {
            SysClass::Ambiguous
        } else if services.len() == 1 {
            SysClass::Single(services.iter().next().unwrap().clone())
        } else {
            SysClass::Multi
        };
        let mut out_tot = vec![0.0; n];
        for v in outm.values() {
            for t in 0..n {
                out_tot[t] += v[t];
            }
        }
        out.push(SysModel { id, class, aux, aux_abs, out: outm, out_tot });
    }
    out
}

/// True if the file contains a system for which a typed error is an acceptable answer.
pub fn expects_possible_error(b: &Building) -> bool {
    reference(b).iter().any(|s| s.relaxed() && s.aux_sum() > 0.0)
}

/// Per (id, service) sums of the AUX components of a parsed set; plus order signature.
fn aux_by_id_srv(c: &Components, n: usize) -> Result<(BTreeMap<(i32, String), Vec<f64>>, u64), Violation> {
    let mut m: BTreeMap<(i32, String), Vec<f64>> = BTreeMap::new();
    let mut sig = Fnv::new();
    for e in &c.data {
        if let Energy::Aux(a) = e {
            if a.values.len() != n {
                return Err(Violation::new(
                    "aux_length",
                    "length",
                    format!("AUX component of system {} ({}) has {} steps, the file has {}", a.id, a.service, a.values.len(), n),
                ));
            }
            sig.u64(a.id as u64).str(&a.service.to_string());
            let v = m.entry((a.id, a.service.to_string())).or_insert_with(|| vec![0.0; n]);
            for (t, x) in a.values.iter().enumerate() {
                if *x < 0.0 {
                    return Err(Violation::new(
                        "aux_negative_share",
                        "negative",
                        format!("AUX share of system {} for {} at step {} is negative: {}", a.id, a.service, t, x),
                    ));
                }
                v[t] += *x as f64;
            }
        }
    }
    Ok((m, sig.finish()))
}

fn check_parsed(b: &Building, models: &[SysModel], c: &Components) -> Result<(BTreeMap<(i32, String), Vec<f64>>, u64), Violation> {
    let n = b.n_steps();
    let (m, sig) = aux_by_id_srv(c, n)?;
    // no auxiliaries for systems that declared none
    for (id, srv) in m.keys() {
        if !models.iter().any(|s| s.id == *id) {
            return Err(Violation::new("aux_foreign", "foreign", format!("AUX component for system {} ({}) which declared no auxiliaries", id, srv)));
        }
    }
    for s in models {
        let mine: Vec<(&String, &Vec<f64>)> = m.iter().filter(|((id, _), _)| *id == s.id).map(|((_, srv), v)| (srv, v)).collect();
        // conservation per step (every class: "every declared kWh still present")
        for t in 0..n {
            let got: f64 = mine.iter().map(|(_, v)| v[t]).sum();
            let tol = s.tol_factor(t, 16.0) * EPS * s.aux_abs[t] + 1e-30;
            if (got - s.aux[t]).abs() > tol {
                return Err(Violation::new(
                    "aux_conservation",
                    if s.relaxed() { "relaxed-class" } else { "per-step" },
                    format!(
                        "system {} ({:?}) declared {} kWh of auxiliary energy at step {} but the assigned AUX components add up to {} (services {:?})",
                        s.id,
                        s.class,
                        s.aux[t],
                        t,
                        got,
                        mine.iter().map(|(srv, v)| format!("{}={}", srv, v[t])).collect::<Vec<_>>()
                    ),
                ));
            }
        }
        if s.relaxed() {
            continue;
        }
        match &s.class {
            SysClass::Single(srv) => {
                for (got_srv, v) in &mine {
                    if *got_srv != srv && v.iter().any(|x| *x != 0.0) {
                        return Err(Violation::new(
                            "aux_wrong_service",
                            "single",
                            format!("system {} serves only {} but auxiliary energy {:?} was assigned to {}", s.id, srv, v, got_srv),
                        ));
                    }
                }
            }
            SysClass::Multi => {
                for (got_srv, v) in &mine {
                    if !EPB_SERVICES.contains(&got_srv.as_str()) && v.iter().any(|x| *x != 0.0) {
                        return Err(Violation::new(
                            "aux_wrong_service",
                            "multi",
                            format!("system {}: auxiliary energy {:?} left on non-EPB service {}", s.id, v, got_srv),
                        ));
                    }
                }
                for t in 0..n {
                    if s.out_tot[t] <= 0.0 {
                        continue; // zero-output step: only conservation is stated
                    }
                    let tol = 16.0 * EPS * s.aux_abs[t] + 1e-30;
                    let mut services: BTreeSet<&String> = s.out.keys().collect();
                    for (srv, _) in &mine {
                        services.insert(srv);
                    }
                    for srv in services {
                        let q = s.out.get(srv).map(|v| v[t]).unwrap_or(0.0);
                        let want = s.aux[t] * q / s.out_tot[t];
                        let got: f64 = mine.iter().filter(|(g, _)| *g == srv).map(|(_, v)| v[t]).sum();
                        if (got - want).abs() > tol {
                            return Err(Violation::new(
                                "aux_split",
                                "proportion",
                                format!(
                                    "system {} step {}: service {} delivers/absorbs |q|={} of {} in total, so its share of the {} kWh of auxiliaries is {}, but {} was assigned",
                                    s.id, t, srv, q, s.out_tot[t], s.aux[t], want, got
                                ),
                            ));
                        }
                    }
                }
            }
            SysClass::Ambiguous => {}
        }
    }
    Ok((m, sig))
}

/// Balance: ELECTRICIDAD EPB use = declared EPB electricity CONSUMO + assigned EPB auxiliaries.
fn check_balance(b: &Building, aux: &BTreeMap<(i32, String), Vec<f64>>, ep: &cteepbd::types::EnergyPerformance) -> Option<Violation> {
    let n = b.n_steps();
    let mut want_srv: BTreeMap<String, Vec<f64>> = BTreeMap::new();
    let mut scale = vec![0.0f64; n];
    for l in &b.lines {
        if let Kind::Used { service, carrier } = &l.kind {
            if carrier == "ELECTRICIDAD" && EPB_SERVICES.contains(&service.as_str()) {
                let e = want_srv.entry(service.clone()).or_insert_with(|| vec![0.0; n]);
                for (t, v) in l.f64s().iter().enumerate().take(n) {
                    e[t] += v;
                    scale[t] += v.abs();
                }
            }
        }
    }
    let mut any_aux = false;
    for ((_, srv), v) in aux {
        if EPB_SERVICES.contains(&srv.as_str()) {
            let e = want_srv.entry(srv.clone()).or_insert_with(|| vec![0.0; n]);
            for t in 0..n {
                e[t] += v[t];
                scale[t] += v[t].abs();
                if v[t] != 0.0 {
                    any_aux = true;
                }
            }
        }
    }
    let el = ep.balance_cr.get(&Carrier::ELECTRICIDAD);
    let want_tot: Vec<f64> = (0..n).map(|t| want_srv.values().map(|v| v[t]).sum()).collect();
    match el {
        None => {
            if any_aux || want_tot.iter().any(|v| *v != 0.0) {
                return Some(Violation::new(
                    "balance_el_use",
                    "no-electricity-balance",
                    format!(
                        "the building has {} kWh of EPB electricity use (auxiliaries included) but the result has no ELECTRICIDAD balance at all",
                        want_tot.iter().sum::<f64>()
                    ),
                ));
            }
            None
        }
        Some(bal) => {
            for t in 0..n {
                let tol = 16.0 * EPS * scale[t] + 1e-30;
                let got = bal.used.epus_t.get(t).copied().unwrap_or(f32::NAN) as f64;
                if !((got - want_tot[t]).abs() <= tol) {
                    return Some(Violation::new(
                        "balance_el_use",
                        "epus_t",
                        format!("ELECTRICIDAD EPB use at step {}: balance says {} but declared EPB consumption + assigned auxiliaries = {}", t, got, want_tot[t]),
                    ));
                }
            }
            for srv in EPB_SERVICES {
                let service: Service = srv.parse().unwrap();
                let got_v = bal.used.epus_by_srv_t.get(&service);
                let zero = vec![0.0; n];
                let want_v = want_srv.get(srv).unwrap_or(&zero);
                for t in 0..n {
                    let tol = 16.0 * EPS * scale[t] + 1e-30;
                    let got = got_v.and_then(|v| v.get(t)).copied().unwrap_or(0.0) as f64;
                    if !((got - want_v[t]).abs() <= tol) {
                        return Some(Violation::new(
                            "balance_el_use",
                            "epus_by_srv_t",
                            format!("ELECTRICIDAD EPB use for {} at step {}: balance says {} but declared consumption + assigned auxiliaries = {}", srv, t, got, want_v[t]),
                        ));
                    }
                }
            }
            None
        }
    }
}

enum Outcome {
    Ok(BTreeMap<(i32, String), Vec<f64>>, u64, Components),
    Err(sut::ErrKind, String),
    Panic(String, String),
    Bad(Violation),
}

impl Property for C06 {
    type Scn = Scn;
    fn id(&self) -> &'static str {
        "C06"
    }
    fn runs(&self, tier: Tier) -> u64 {
        match tier {
            Tier::Quick => 150_000,
            Tier::Thorough => 1_500_000,
        }
    }

    fn generate(&self, ctx: &Ctx, run_index: u64) -> Scn {
        let seed = ctx.run_seed(run_index);
        let mut w = Rng::for_stream(seed, stream::WORKLOAD);
        let p = gen_profile(&mut w, Focus::Aux, ctx.thorough());
        let mut b = gen_building(&mut w, &p);
        // "electricity otherwise absent": drop every other electricity component in a tenth of the runs
        if w.chance(0.1) {
            b.lines.retain(|l| l.kind == Kind::Aux || l.kind.carrier() != Some("ELECTRICIDAD"));
        }
        let layout = gen_layout(&mut w, b.lines.len());
        let text = render(&b, &layout);
        let mut o = Rng::for_stream(seed, stream::OPTIONS);
        let mut cfg = gen_evalcfg(&mut o, &b, false);
        cfg.strip = o.chance(0.5);
        let mut s = Rng::for_stream(seed, stream::SCHEDULE);
        let k = if ctx.thorough() { 16 } else { 4 };
        Scn { b, layout, text, cfg, sched: (0..k).map(|_| s.next_u64()).collect(), sched_eval: s.next_u64() }
    }

    fn execute(&self, _ctx: &Ctx, scn: &Scn) -> Exec {
        let mut ex = Exec::default();
        let mut fp = Fnv::new();
        let models = reference(&scn.b);
        let may_err = models.iter().any(|s| s.relaxed() && s.aux_sum() > 0.0);
        let n = scn.b.n_steps();
        let mut violation: Option<Violation> = None;
        let mut oks: Vec<(u64, BTreeMap<(i32, String), Vec<f64>>)> = Vec::new();
        let mut first_comps: Option<Components> = None;
        let mut orders = BTreeSet::new();
        for &sigma in &scn.sched {
            let text = scn.text.clone();
            let b = scn.b.clone();
            let ms = models.clone();
            let out = in_thread(sigma, move || match sut::parse_components(&text) {
                Ok(Ok(c)) => match check_parsed(&b, &ms, &c) {
                    Ok((m, sig)) => Outcome::Ok(m, sig, c),
                    Err(v) => Outcome::Bad(v),
                },
                Ok(Err(e)) => Outcome::Err(e.kind, e.msg),
                Err(p) => Outcome::Panic(p.site, p.message),
            });
            ex.count("parse_executions", 1);
            match out {
                Outcome::Ok(m, sig, c) => {
                    fp.str("ok").u64(sig);
                    for ((id, srv), v) in &m {
                        fp.u64(*id as u64).str(srv);
                        for x in v {
                            fp.u64(x.to_bits());
                        }
                    }
                    orders.insert(sig);
                    oks.push((sigma, m));
                    if first_comps.is_none() {
                        first_comps = Some(c);
                    }
                }
                Outcome::Err(kind, msg) => {
                    fp.str(&format!("err{:?}", kind));
                    ex.count("typed_errors", 1);
                    if !may_err && violation.is_none() {
                        violation = Some(Violation::new(
                            "unexpected_error",
                            format!("{:?}", kind),
                            format!("under entropy seed {:#x} a file whose auxiliaries can all be attributed was rejected: {}", sigma, msg),
                        ));
                    }
                }
                Outcome::Panic(site, msg) => {
                    fp.str("panic").str(&site);
                    if violation.is_none() {
                        violation = Some(Violation::new("panic", site, format!("under entropy seed {:#x} parsing panicked: {}", sigma, msg)));
                    }
                }
                Outcome::Bad(mut v) => {
                    fp.str("bad").str(&v.kind).str(&v.site);
                    if violation.is_none() {
                        v.message = format!("under entropy seed {:#x}: {}", sigma, v.message);
                        violation = Some(v);
                    }
                }
            }
        }
        // schedule independence of the assignment (incl. steps where only conservation is stated)
        if violation.is_none() && oks.len() >= 2 {
            let (s0, m0) = &oks[0];
            'cmp: for (si, mi) in oks.iter().skip(1) {
                let keys: BTreeSet<&(i32, String)> = m0.keys().chain(mi.keys()).collect();
                let zero = vec![0.0; n];
                for k in keys {
                    let (a, b2) = (m0.get(k).unwrap_or(&zero), mi.get(k).unwrap_or(&zero));
                    let model = models.iter().find(|s| s.id == k.0);
                    let scale = model.map(|s| s.aux_abs.clone()).unwrap_or_else(|| vec![0.0; n]);
                    for t in 0..n {
                        let factor = model.map(|s| s.tol_factor(t, 32.0)).unwrap_or(32.0);
                        if (a[t] - b2[t]).abs() > factor * EPS * scale[t] + 1e-30 {
                            violation = Some(Violation::new(
                                "schedule_dependence",
                                "aux-assignment",
                                format!(
                                    "auxiliary energy of system {} for {} at step {} is {} under entropy seed {:#x} but {} under {:#x}",
                                    k.0, k.1, t, a[t], s0, b2[t], si
                                ),
                            ));
                            break 'cmp;
                        }
                    }
                }
            }
        }
        if oks.len() != scn.sched.len() && !oks.is_empty() && violation.is_none() {
            violation = Some(Violation::new(
                "schedule_dependence",
                "status",
                format!("the file parses under {} of {} schedules and is rejected under the others", oks.len(), scn.sched.len()),
            ));
        }
        // balance under a further schedule
        if violation.is_none() {
            if let (Some(c), Some((_, m))) = (first_comps, oks.first()) {
                let cfg = scn.cfg.clone();
                let b = scn.b.clone();
                let m = m.clone();
                let r = in_thread(scn.sched_eval, move || {
                    let f = match sut::make_factors(&cfg) {
                        Ok(Ok(f)) => f,
                        Ok(Err(e)) => return Err(Ok(e)),
                        Err(p) => return Err(Err(p)),
                    };
                    let f = if cfg.strip && !c.data.is_empty() {
                        match sut::strip(f, &c) {
                            Ok(f) => f,
                            Err(p) => return Err(Err(p)),
                        }
                    } else {
                        f
                    };
                    match sut::evaluate_parsed(&c, &f, &cfg) {
                        Ok(Ok(ep)) => Ok(check_balance(&b, &m, &ep)),
                        Ok(Err(e)) => Err(Ok(e)),
                        Err(p) => Err(Err(p)),
                    }
                });
                ex.count("evaluations", 1);
                match r {
                    Ok(v) => {
                        fp.str(if v.is_some() { "bal-bad" } else { "bal-ok" });
                        violation = v;
                    }
                    Err(Ok(e)) => {
                        fp.str(&format!("eval-err{:?}", e.kind));
                        if e.kind == sut::ErrKind::MissingFactor && matches!(scn.cfg.factors, FactorSpec::Loc(_)) && !may_err {
                            // the regulatory factor sets define every carrier: a missing factor means the auxiliary
                            // (or other) energy of this building cannot be counted at all
                            violation = Some(Violation::new(
                                "balance_el_use",
                                "evaluation-fails",
                                format!(
                                    "the file parses but its evaluation with the complete factor set of a location{} fails: {}",
                                    if scn.cfg.strip { " (simplified for this building, as the CLI does by default)" } else { "" },
                                    e.msg
                                ),
                            ));
                        } else {
                            ex.count("evaluation_typed_errors(balance not checked)", 1);
                        }
                    }
                    Err(Err(p)) => {
                        fp.str("eval-panic").str(&p.site);
                        violation = Some(Violation::new("panic", p.site, format!("evaluation panicked: {}", p.message)));
                    }
                }
            }
        }
        // evidence
        let with_aux = models.iter().filter(|s| s.aux_sum() > 0.0).count();
        let multi = models.iter().filter(|s| s.class == SysClass::Multi && s.aux_sum() > 0.0 && s.out_sum() > 0.0).count();
        if with_aux >= 2 && multi >= 1 {
            let mut h = Fnv::new();
            h.u64(scn.b.feature_sig());
            for s in &models {
                h.str(&format!("{:?}", s.class)).u64(s.out.len() as u64);
                h.u64((0..n).filter(|&t| s.out_tot[t] == 0.0 && s.aux[t] > 0.0).count() as u64);
            }
            for o in &orders {
                h.u64(*o);
            }
            ex.nontrivial = Some(h.finish());
        }
        if models.iter().any(|s| (0..n).any(|t| s.class == SysClass::Multi && s.out_sum() > 0.0 && s.out_tot[t] == 0.0 && s.aux[t] > 0.0)) {
            ex.count("runs_with_aux_at_zero_output_step", 1);
        }
        if models.iter().any(|s| s.out.contains_key("REF") && s.out.len() >= 2 && s.class == SysClass::Multi) {
            ex.count("runs_with_heating_and_cooling_outputs", 1);
        }
        if !scn.b.lines.iter().any(|l| l.kind != Kind::Aux && l.kind.carrier() == Some("ELECTRICIDAD")) && with_aux > 0 {
            ex.count("runs_with_aux_as_only_electricity", 1);
        }
        if may_err {
            ex.count("runs_with_relaxed_class_system", 1);
        }
        ex.order_sigs = orders.into_iter().collect();
        ex.fingerprint = fp.finish();
        ex.violation = violation;
        ex
    }

    fn shrink(&self, scn: &Scn) -> Vec<Scn> {
        let mut out = Vec::new();
        if scn.sched.len() > 2 {
            for i in 1..scn.sched.len() {
                let mut n = scn.clone();
                n.sched = vec![scn.sched[0], scn.sched[i]];
                out.push(n);
            }
        }
        if scn.sched.len() > 1 {
            for i in 0..scn.sched.len() {
                let mut n = scn.clone();
                n.sched = vec![scn.sched[i]];
                out.push(n);
            }
        }
        for nb in shrink_building(&scn.b) {
            let mut n = scn.clone();
            n.b = nb;
            n.text = render(&n.b, &n.layout);
            out.push(n);
        }
        for l in shrink_layout(&scn.layout) {
            let mut n = scn.clone();
            n.layout = l;
            n.text = render(&n.b, &n.layout);
            out.push(n);
        }
        for c in shrink_cfg(&scn.cfg) {
            let mut n = scn.clone();
            n.cfg = c;
            out.push(n);
        }
        for (slot, cur) in scn.sched.iter().enumerate() {
            if *cur >= 64 {
                for small in 0..8u64 {
                    let mut n = scn.clone();
                    n.sched[slot] = small;
                    out.push(n);
                }
            }
        }
        out
    }

    fn sample(&self, scn: &Scn) -> Value {
        json!({
            "text": truncate(&scn.text, 2000),
            "cfg": scn.cfg,
            "schedules(entropy seeds)": scn.sched.iter().map(|s| format!("{:#x}", s)).collect::<Vec<_>>(),
            "systems_with_aux": reference(&scn.b).iter().map(|s| json!({"id": s.id, "class": format!("{:?}", s.class), "aux": s.aux, "out_services": s.out.keys().collect::<Vec<_>>()})).collect::<Vec<_>>(),
        })
    }

    fn rule(&self) -> String {
        "Run = one generated components file with AUX lines (1-4+ systems, 1-3 AUX lines each; single- and multi-service systems; SALIDA \
         positive, negative (REF) and mixed within a step; zero values at random steps; electricity otherwise absent in 10% of runs; systems \
         whose attribution the rule does not determine in 10%), parsed by the real library under K seeded hash schedules in fresh threads \
         (K=4 quick, 16 thorough) and checked per system and per step against a reference model built from the structured description \
         (conservation, non-negative shares, single-service assignment, |output|-proportional split, no foreign AUX), compared across the \
         schedules, then evaluated under a further schedule and the ELECTRICIDAD EPB use (total and by service, per step) compared with \
         declared consumption + assigned auxiliaries. Non-trivial = >=2 systems with non-zero AUX of which >=1 multi-service with outputs; \
         distinct = distinct (input feature signature, per-system class/zero-output pattern, observed AUX-order signatures)."
            .into()
    }

    fn assumptions(&self) -> Vec<String> {
        vec![
            "ground truth is the generator's structured description; token values are converted with std's f32 parser".into(),
            "SALIDA lines of one service in one system have a consistent sign per step (REF negative, others positive), so |sum| = sum|.| and the statement's 'magnitude' is unambiguous".into(),
            "systems with AUX but no CONSUMO, with NEPB/COGEN among their uses, or multi-service without any output are only required to give a typed error or keep every declared kWh".into(),
            "at a step where a multi-service system has zero total output only conservation is required (the statement gives no split there)".into(),
            "tolerance 16*eps_f32*sum|aux| per step".into(),
        ]
    }

    fn extra_evidence(&self) -> Value {
        json!({
            "real_components": ["cteepbd library: FromStr for Components, assign_aux_nepb_to_epb_services, factors, strip, energy_performance"],
            "stubbed_components": ["entropy source behind RandomState (getrandom)"],
            "fault_kinds": "none (no I/O in the code under this property)",
        })
    }
}
