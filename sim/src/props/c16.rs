//! C16 — no input makes the library panic or the program crash or hang (DESIGN §5 C16).

use serde::{Deserialize, Serialize};
use serde_json::{json, Value};

use cteepbd::{types::EnergyPerformance, AsCtePlain, AsCteXml, Components, Factors};

use crate::engine::{Ctx, Exec, Property, Tier, Violation};
use crate::entropy::{guard, in_thread, Panic};
use crate::faults::{self, Blob};
use crate::gen::*;
use crate::model::*;
use crate::props::c10::truncate;
use crate::rng::{stream, Fnv, Rng};
use crate::sut;
use crate::worldp::{self, DiskImage, Incarnation, PlanEntry, PlanKind, TraceLine};

pub struct C16;

#[derive(Clone, Debug, Serialize, Deserialize)]
pub enum FactorsIn {
    Loc(String),
    File(Blob),
}

/// Library-world scenario.
#[derive(Clone, Debug, Serialize, Deserialize)]
pub struct LScn {
    pub comp: Blob,
    pub factors: FactorsIn,
    /// Numeric options as text (so that NaN / inf survive the replay file).
    pub k_exp: String,
    pub area: String,
    pub red1: Option<[String; 3]>,
    pub red2: Option<[String; 3]>,
    pub sched: u64,
    /// Stored-data faults applied by the generator (evidence only).
    pub fired: Vec<String>,
}

/// Process-world scenario.
#[derive(Clone, Debug, Serialize, Deserialize)]
pub struct PScn {
    pub image: DiskImage,
    pub inc: Incarnation,
    /// Entropy seed of the clean re-run after an injected crash.
    pub rerun_entropy: u64,
    pub fired_stored: Vec<String>,
    pub valid_input: bool,
}

#[derive(Clone, Debug, Serialize, Deserialize)]
pub enum Scn {
    L(LScn),
    P(PScn),
}

pub const HOSTILE_NUMS: &[&str] = &[
    "NaN", "nan", "inf", "-inf", "1e39", "-1e39", "0", "-0", "-1", "1e-46", "0.001", "0.0009", "0.00100001", "1", "1.0000001", "2", "1e10", "abc", "",
    " 1", "1,5", "0x1", "1e", "+0.5", "99999999999999999999999999999999999999999999999999999999999999999999999999999999",
];

fn tok_to_f32(t: &str) -> Option<f32> {
    t.trim().parse::<f32>().ok()
}

// ---------------------------------------------------------------------------------------------
// Library world

#[derive(Default)]
pub struct Pipeline {
    /// (stage, outcome label)
    pub stages: Vec<(String, String)>,
    pub panic: Option<(String, Panic)>,
}

impl Pipeline {
    fn stage<T>(&mut self, name: &str, r: Result<T, Panic>, label: impl Fn(&T) -> String) -> Option<T> {
        match r {
            Ok(v) => {
                self.stages.push((name.to_string(), label(&v)));
                Some(v)
            }
            Err(p) => {
                self.stages.push((name.to_string(), format!("PANIC {}", p.site)));
                if self.panic.is_none() {
                    self.panic = Some((name.to_string(), p));
                }
                None
            }
        }
    }
}

fn res_label<T>(r: &Result<T, sut::SutErr>) -> String {
    match r {
        Ok(_) => "ok".into(),
        Err(e) => format!("err:{:?}", e.kind),
    }
}

/// Hostile values for the metadata the CLI interprets (numbers, triplets in both documented spellings, locations).
pub const HOSTILE_META_VALUES: [&str; 40] = [
    "", "1", "1, 2", "1, 2, 3, 4", "a, b, c", "NaN, NaN, NaN", "inf, 0, 0", "(1, 2", "{ ren: 1 }", "{ ren: 1, nren: x, co2 }", "1;2;3", "-1", "0",
    "0.0001", "2", "1e39", "abc", "MADRID", "PENINSULA ", "0,5", "1 2 3", ", ,", "1,,3", "{}", "{ }", "{ ren: 1, }", "{ ren }", "{ ren: 1, nren: 2, co2 }",
    "{ ren: 1, nren: 2, co2: 3 }", "{ren:1,nren:2,co2:3}", "{ : 1 }", "{ ren: }", "{,}", "{ ren: 1 nren: 2 }", "{ ren: 1, nren: 2, co2: 3, }", "{{ ren: 1 }}",
    "{ ren: 1, ren: 2, ren: 3 }", "{ co2: é }", "(1, 2, 3)", "[1, 2, 3]",
];

/// Run every public entry point on whatever the previous stage produced.
pub fn pipeline(comp_text: &str, factors: &FactorsIn, k_exp: f32, area: f32, red1: Option<[f32; 3]>, red2: Option<[f32; 3]>) -> Pipeline {
    let mut p = Pipeline::default();
    let comps: Option<Components> = p.stage("parse_components", sut::parse_components(comp_text), res_label).and_then(|r| r.ok());
    let cfg = EvalCfg {
        factors: match factors {
            FactorsIn::Loc(l) => FactorSpec::Loc(l.clone()),
            FactorsIn::File(b) => FactorSpec::File(b.text_lossy()),
        },
        red1,
        red2,
        k_exp,
        area,
        load_matching: false,
        strip: false,
    };
    let facs: Option<Factors> = p.stage("make_factors", sut::make_factors(&cfg), res_label).and_then(|r| r.ok());
    if let FactorsIn::File(b) = factors {
        let t = b.text_lossy();
        p.stage("parse_factors_raw", guard(|| t.parse::<Factors>().map(|f| f.to_string())), |r| if r.is_ok() { "ok".into() } else { "err".into() });
    }
    if let Some(c) = &comps {
        // the accessors the CLI uses for the metadata it interprets, and the triplet parser on every value
        p.stage(
            "metadata_accessors",
            guard(|| {
                use cteepbd::types::MetaVec;
                let mut n = 0usize;
                for k in ["CTE_RED1", "CTE_RED2"] {
                    n += c.get_meta_rennren(k).is_some() as usize;
                }
                for k in ["CTE_AREAREF", "CTE_KEXP"] {
                    n += c.get_meta_f32(k).is_some() as usize;
                }
                n += c.get_meta("CTE_LOCALIZACION").is_some() as usize;
                for m in c.get_metavec() {
                    n += m.value.parse::<cteepbd::types::RenNrenCo2>().is_ok() as usize;
                }
                n
            }),
            |_| "ok".into(),
        );
        p.stage("components_display_reparse", guard(|| c.to_string().parse::<Components>().is_ok()), |ok| format!("{}", ok));
        p.stage("components_xml", guard(|| c.to_xml().len()), |_| "ok".into());
        p.stage("components_json", guard(|| serde_json::to_string(c).map(|s| s.len()).map_err(|e| e.to_string())), |r| if r.is_ok() { "ok".into() } else { "err".into() });
        p.stage("renormalize", guard(|| c.clone().normalize().is_ok()), |ok| format!("{}", ok));
    }
    if let Some(f) = &facs {
        p.stage(
            "factors_display_reparse",
            guard(|| cteepbd::cte::wfactors_from_str(&f.to_string(), cteepbd::UserWF { red1: None, red2: None }, cteepbd::cte::CTE_USERWF).is_ok()),
            |ok| format!("{}", ok),
        );
        p.stage("factors_xml", guard(|| f.to_xml().len()), |_| "ok".into());
        p.stage("factors_to_nearby", guard(|| f.to_nearby(&cteepbd::types::Carrier::NRBY).wdata.len()), |_| "ok".into());
    }
    if let (Some(c), Some(f)) = (&comps, &facs) {
        let stripped = p.stage("strip", sut::strip(f.clone(), c), |_| "ok".into());
        for (fname, fset) in [("full", Some(f.clone())), ("stripped", stripped)] {
            let fset = match fset {
                Some(x) => x,
                None => continue,
            };
            for lm in [false, true] {
                let mut cfg2 = cfg.clone();
                cfg2.load_matching = lm;
                let name = format!("energy_performance[{},lm={}]", fname, lm);
                let ep: Option<EnergyPerformance> = p.stage(&name, sut::evaluate_parsed(c, &fset, &cfg2), res_label).and_then(|r| r.ok());
                if let Some(ep) = ep {
                    p.stage(&format!("to_plain[{},lm={}]", fname, lm), guard(|| ep.to_plain().len()), |_| "ok".into());
                    p.stage(&format!("to_xml[{},lm={}]", fname, lm), guard(|| ep.to_xml().len()), |_| "ok".into());
                    p.stage(
                        &format!("to_json[{},lm={}]", fname, lm),
                        guard(|| {
                            let a = serde_json::to_string(&ep).map_err(|e| e.to_string())?;
                            let b = serde_json::to_string_pretty(&ep).map_err(|e| e.to_string())?;
                            // reading it back may fail with an error (non-finite numbers print as null) but must not panic
                            let back = serde_json::from_str::<EnergyPerformance>(&a).is_ok();
                            Ok::<(usize, bool), String>((a.len() + b.len(), back))
                        }),
                        |r| match r {
                            Ok((_, back)) => format!("ok(back={})", back),
                            Err(_) => "err".into(),
                        },
                    );
                    p.stage(
                        &format!("dhw_fraction[{},lm={}]", fname, lm),
                        guard(|| cteepbd::cte::fraccion_renovable_acs_nrb(&ep).is_ok()),
                        |ok| format!("{}", ok),
                    );
                }
            }
        }
    }
    p
}

// ---------------------------------------------------------------------------------------------
// Generation

fn gen_valid_texts(w: &mut Rng, thorough: bool, run_index: u64) -> (String, Building) {
    let shipped = crate::gen::shipped_component_files();
    if !shipped.is_empty() && w.chance(0.15) {
        let (_, t) = &shipped[(run_index as usize) % shipped.len()];
        return (t.clone(), Building::default());
    }
    let focus = *w_pick_focus(w);
    let p = gen_profile(w, focus, thorough);
    let b = gen_building(w, &p);
    let lay = gen_layout(w, b.lines.len());
    (render(&b, &lay), b)
}

fn w_pick_focus(w: &mut Rng) -> &'static Focus {
    match w.below(4) {
        0 => &Focus::Aux,
        1 => &Focus::Env,
        2 => &Focus::Output,
        _ => &Focus::General,
    }
}

fn gen_factors_in(w: &mut Rng, d: &mut Rng, b: &Building, fired: &mut Vec<String>, allow_non_utf8: bool) -> FactorsIn {
    if w.chance(0.6) {
        FactorsIn::Loc(if w.chance(0.03) { "MADRID".into() } else { w.pick(&LOCS).to_string() })
    } else {
        let shipped = shipped_factor_files();
        let text = if !shipped.is_empty() && w.chance(0.25) {
            shipped[w.usize(shipped.len())].1.clone()
        } else {
            let complete = w.chance(0.8);
            gen_factor_file(w, &b.carriers(), true, complete)
        };
        if d.chance(0.5) {
            let (bytes, k) = if d.chance(0.1) {
                let (b2, k) = faults::degenerate(d);
                (b2, vec![k])
            } else {
                faults::corrupt(d, text.as_bytes(), allow_non_utf8)
            };
            fired.extend(k.into_iter().map(|x| format!("factors:{}", x)));
            FactorsIn::File(Blob::from_bytes(&bytes))
        } else {
            FactorsIn::File(Blob::Utf8(text))
        }
    }
}

fn gen_num(o: &mut Rng, valid: &[&str], p_hostile: f64) -> String {
    if o.chance(p_hostile) {
        if o.chance(0.06) {
            // option text that is not valid UTF-8 (arguments are byte strings)
            return worldp::raw_arg(*o.pick(&[&b"\xff"[..], &b"1\xff"[..], &b"0.5\xc3"[..], &b"\xed\xa0\x80"[..]]));
        }
        o.pick(HOSTILE_NUMS).to_string()
    } else {
        o.pick(valid).to_string()
    }
}

fn gen_l(ctx: &Ctx, seed: u64, run_index: u64) -> LScn {
    let mut w = Rng::for_stream(seed, stream::WORKLOAD);
    let mut d = Rng::for_stream(seed, stream::DISK);
    let mut o = Rng::for_stream(seed, stream::OPTIONS);
    let mut s = Rng::for_stream(seed, stream::SCHEDULE);
    let (text, b) = gen_valid_texts(&mut w, ctx.thorough(), run_index);
    let mut fired = Vec::new();
    let comp = match d.below(10) {
        0..=3 => Blob::Utf8(text), // 40% fault-free valid inputs
        4 => {
            let (bytes, k) = faults::degenerate(&mut d);
            fired.push(format!("components:{}", k));
            Blob::from_bytes(&String::from_utf8_lossy(&bytes).into_owned().into_bytes())
        }
        _ => {
            let (bytes, k) = faults::corrupt(&mut d, text.as_bytes(), false);
            fired.extend(k.into_iter().map(|x| format!("components:{}", x)));
            Blob::from_bytes(&bytes)
        }
    };
    // hostile values for the metadata the CLI interprets, in the library world too (its accessors are library code)
    let comp = if d.chance(0.12) {
        let key = *d.pick(&["CTE_RED1", "CTE_RED2", "CTE_AREAREF", "CTE_KEXP", "CTE_LOCALIZACION"]);
        let val = *d.pick(&HOSTILE_META_VALUES);
        fired.push(format!("components:hostile_metadata_{}", key));
        let mut bytes = format!("#META {}: {}\n", key, val).into_bytes();
        bytes.extend_from_slice(&comp.bytes());
        Blob::from_bytes(&bytes)
    } else {
        comp
    };
    let factors = gen_factors_in(&mut w, &mut d, &b, &mut fired, false);
    let p_h = if o.chance(0.3) { 0.5 } else { 0.0 };
    let triple = |o: &mut Rng| -> [String; 3] {
        [gen_num(o, &["0", "1", "1.3", "0.3", "2.5"], p_h), gen_num(o, &["0", "1", "1.3", "0.3"], p_h), gen_num(o, &["0", "0.3", "1"], p_h)]
    };
    LScn {
        comp,
        factors,
        k_exp: gen_num(&mut o, &["0", "1", "0.5", "0.3"], p_h),
        area: gen_num(&mut o, &["1", "100", "2.5", "1234.56"], p_h),
        red1: if o.chance(0.3) { Some(triple(&mut o)) } else { None },
        red2: if o.chance(0.3) { Some(triple(&mut o)) } else { None },
        sched: s.next_u64(),
        fired,
    }
}

/// Predicted fault-free call shape of a CLI incarnation (DESIGN §3.4): inputs are
/// open/read/read(EOF)/close, outputs open/write/close, in the order the CLI processes them.
pub fn predicted_shape(argv: &[String], image: &DiskImage) -> Vec<TraceLine> {
    let mut shape = Vec::new();
    let mut idx = 0u64;
    let mut push = |call: &str, path: &str, req: i64, res: i64| {
        shape.push(TraceLine { idx, call: call.into(), fd: 4, path: path.into(), req, res, errno: 0, fault: "-".into() });
        idx += 1;
    };
    let val = |flags: &[&str]| -> Option<String> {
        for (i, a) in argv.iter().enumerate() {
            if flags.contains(&a.as_str()) {
                return argv.get(i + 1).cloned();
            }
        }
        None
    };
    for flags in [&["-c", "--archivo_componentes"][..], &["-f", "--archivo_factores"][..]] {
        if let Some(name) = val(flags) {
            let size = image.get(&name).map(|b| b.len() as i64).unwrap_or(0);
            push("open", &name, 0o2000000, 4);
            push("read", "-", size, size);
            push("read", "-", 32, 0);
            push("close", "-", 0, 0);
        }
    }
    for flag in ["--oc", "--of", "--json", "--xml", "--txt"] {
        if let Some(name) = val(&[flag]) {
            push("open", &name, 0o2001101, 4);
            push("write", "-", 3000, 3000);
            push("close", "-", 0, 0);
        }
    }
    shape
}

fn gen_p(ctx: &Ctx, seed: u64, run_index: u64) -> PScn {
    let mut w = Rng::for_stream(seed, stream::WORKLOAD);
    let mut d = Rng::for_stream(seed, stream::DISK);
    let mut o = Rng::for_stream(seed, stream::OPTIONS);
    let mut s = Rng::for_stream(seed, stream::SCHEDULE);
    let mut y = Rng::for_stream(seed, stream::SYSCALLS);
    let (mut text, b) = gen_valid_texts(&mut w, ctx.thorough(), run_index);
    let mut fired = Vec::new();
    let mut valid_input = true;
    // fault class first: a hard or lifecycle fault tests little if the run ends at a corrupted input before the
    // faulted call is reached, so 70 % of those runs keep their inputs and options valid
    let class = y.below(20);
    let force_valid = class >= 15 && y.chance(0.7);
    // hostile values for the metadata the CLI interprets (area, k_exp, location, RED1/RED2 factors)
    if !force_valid && d.chance(0.15) {
        let key = *d.pick(&["CTE_RED1", "CTE_RED2", "CTE_AREAREF", "CTE_KEXP", "CTE_LOCALIZACION"]);
        let val = *d.pick(&HOSTILE_META_VALUES);
        text = format!("#META {}: {}\n{}", key, val, text.trim_start_matches('\u{feff}'));
        fired.push(format!("components:hostile_metadata_{}", key));
        valid_input = false;
    }
    let comp = match if force_valid { 0 } else { d.below(10) } {
        0..=4 => Blob::Utf8(text),
        5 => {
            valid_input = false;
            let (bytes, k) = faults::degenerate(&mut d);
            fired.push(format!("components:{}", k));
            Blob::from_bytes(&bytes)
        }
        _ => {
            valid_input = false;
            let (bytes, k) = faults::corrupt(&mut d, text.as_bytes(), true);
            fired.extend(k.into_iter().map(|x| format!("components:{}", x)));
            Blob::from_bytes(&bytes)
        }
    };
    let mut image = DiskImage::default().with_file("in.csv", comp);
    let mut argv: Vec<String> = Vec::new();
    if !o.chance(0.03) {
        argv.push(if o.chance(0.8) { "-c".into() } else { "--archivo_componentes".into() });
        argv.push(if o.chance(0.03) { "missing.csv".into() } else { "in.csv".into() });
    }
    let n_before = fired.len();
    let factors_in = if force_valid { FactorsIn::Loc(w.pick(&LOCS).to_string()) } else { gen_factors_in(&mut w, &mut d, &b, &mut fired, true) };
    match factors_in {
        FactorsIn::Loc(l) => {
            if !o.chance(0.15) {
                argv.push("-l".into());
                argv.push(l);
            } // else: rely on CTE_LOCALIZACION metadata (or fail with USAGE)
        }
        FactorsIn::File(blob) => {
            image = image.with_file("factors.csv", blob);
            argv.push("-f".into());
            argv.push("factors.csv".into());
            if o.chance(0.05) {
                argv.push("-l".into());
                argv.push("PENINSULA".into()); // conflicting options: the option parser must refuse
            }
        }
    }
    if fired.len() != n_before {
        valid_input = false;
    }
    let p_h = if !force_valid && o.chance(0.25) { 0.5 } else { 0.0 };
    if p_h > 0.0 {
        valid_input = false;
    }
    if o.chance(0.4) {
        let v = gen_num(&mut o, &["1", "100", "2.5", "1234.56"], p_h);
        if o.chance(0.5) {
            argv.push("-a".into());
            argv.push(v);
        } else {
            argv.push(format!("--arearef={}", v));
        }
    }
    if o.chance(0.4) {
        let v = gen_num(&mut o, &["0", "1", "0.5", "0.3"], p_h);
        if o.chance(0.5) {
            argv.push("-k".into());
            argv.push(v);
        } else {
            argv.push(format!("--kexp={}", v));
        }
    }
    for flag in ["--red1", "--red2"] {
        if o.chance(0.15) && !argv.contains(&"-f".to_string()) {
            argv.push(flag.into());
            let n = if o.chance(0.05) { 2 } else { 3 };
            for _ in 0..n {
                argv.push(gen_num(&mut o, &["0", "1", "1.3", "0.3"], p_h));
            }
        }
    }
    if o.chance(0.2) {
        argv.push("--load_matching".into());
    }
    if o.chance(0.15) {
        argv.push("-F".into());
    }
    if o.chance(0.2) {
        argv.push(o.pick(&["-v", "-vv", "-vvv"]).to_string());
    }
    if o.chance(0.01) {
        argv.push(o.pick(&["-h", "-V", "-L", "--bogus", "--licencia"]).to_string());
    }
    for (flag, name) in [("--oc", "oc.csv"), ("--of", "of.csv"), ("--json", "out.json"), ("--xml", "out.xml"), ("--txt", "out.txt")] {
        if o.chance(0.35) {
            argv.push(flag.into());
            match d.below(12) {
                0 => {
                    argv.push("nodir/out".into()); // missing directory
                }
                1 => {
                    image.dirs.push(format!("{}.d", name)); // target is a directory
                    argv.push(format!("{}.d", name));
                }
                2 | 3 => {
                    // disk history: a longer stale file at the path
                    image = image.with_file(name, Blob::Utf8("STALE ".repeat(4000)));
                    argv.push(name.into());
                }
                4 => {
                    // disk history: a leftover next to the path (temporary file of a killed earlier save, a backup)
                    let sib = worldp::stale_sibling(&mut d, name);
                    image = image.with_file(&sib, Blob::Utf8("STALE ".repeat(4000)));
                    argv.push(name.into());
                }
                _ => argv.push(name.into()),
            }
        }
    }
    // odd but legal command lines: empty values, a directory or the null device as input, repeated options,
    // stray arguments, the components file given as factor file
    if o.chance(0.04) {
        match o.below(10) {
            0 => {
                if let Some(i) = argv.iter().position(|a| ["-a", "-k", "-c", "-l", "--json", "--oc"].contains(&a.as_str())) {
                    if i + 1 < argv.len() {
                        argv[i + 1] = String::new();
                    }
                }
            }
            1 => {
                if let Some(i) = argv.iter().position(|a| a == "-c") {
                    argv[i + 1] = o.pick(&[".", "/dev/null", "/", "in.csv/", "./in.csv", "../disk/in.csv"]).to_string();
                }
            }
            2 => {
                argv.push("-a".into());
                argv.push("1".into());
                argv.push("-a".into());
                argv.push("2".into());
            }
            3 => {
                argv.push("--".into());
                argv.push("extra".into());
            }
            4 => {
                argv.push("-f".into());
                argv.push("in.csv".into());
            }
            5 => argv.push("-vvvvvvvvvvvvvvvv".into()),
            6 => {
                argv.push("--json".into());
                argv.push(o.pick(&[".", "", "/", "in.csv", "/dev/null", "/dev/full"]).to_string());
            }
            7 => {
                argv.push("-k".into());
                argv.push("-0".into());
            }
            8 => argv.push("-k=0.5".into()),
            _ => {
                argv.push("-c".into());
                argv.push("in.csv".into());
            }
        }
        valid_input = false;
    }
    // fault plan
    let shape = predicted_shape(&argv, &image);
    let mut plan: Vec<PlanEntry> = Vec::new();
    match class {
        0..=7 => {}
        8..=14 => {
            plan = worldp::benign_plan(&mut y, &shape, 0.35);
            // the size a status call announces is not the size the reads deliver (the file grew or shrank in
            // between, or is procfs-like): legal, and the program must still end by itself
            if y.chance(0.3) {
                let inputs: Vec<i64> = shape.iter().filter(|t| t.call == "read" && t.res > 0).map(|t| t.res).collect();
                if !inputs.is_empty() {
                    let k = y.usize(inputs.len());
                    let n = inputs[k].max(0) as u64;
                    let lie = match y.below(7) {
                        0 => 0,
                        1 => 1,
                        2 => n / 2,
                        3 => n.saturating_sub(1),
                        4 => n + 1,
                        5 => 2 * n + 4096,
                        _ => y.below(2 * n + 2),
                    };
                    plan.push(PlanEntry { idx: k as u64, kind: PlanKind::StatSize(lie) });
                }
            }
        }
        15..=18 => {
            let first_reads: Vec<u64> = shape.iter().filter(|t| t.call == "read" && t.res > 0).map(|t| t.idx).collect();
            if !first_reads.is_empty() && y.chance(0.12) {
                // the input ends before its announced size (cut short after open): optionally after a first part
                let idx = *y.pick(&first_reads);
                if y.chance(0.5) {
                    plan.push(PlanEntry { idx, kind: PlanKind::Short(1 + y.below(64)) });
                    plan.push(PlanEntry { idx: idx + 1, kind: PlanKind::Eof });
                } else {
                    plan.push(PlanEntry { idx, kind: PlanKind::Eof });
                }
            } else if y.chance(0.1) {
                // a disk that fills up and stays full: the simulated disk takes only so many more bytes
                let outputs = shape.iter().filter(|t| t.call == "write").count() as u64;
                plan.push(PlanEntry { idx: 0, kind: PlanKind::Quota(y.below(2500 * outputs.max(1) + 1)) });
            } else if y.chance(0.06) {
                // the status call on an input fails (ENOSYS makes std fall back to another call)
                plan.push(PlanEntry { idx: y.below(2), kind: PlanKind::StatErr(*y.pick(&[worldp::EIO, worldp::EACCES, worldp::ENOSYS, worldp::ENOMEM])) });
            } else if let Some((e, _)) = worldp::hard_fault(&mut y, &shape) {
                // a disk that fills up (or an I/O error) in the middle of a transfer: the call first moves only
                // part of the data, the continuation then fails
                let mid_transfer = matches!(e.kind, PlanKind::Err(_)) && y.chance(0.3);
                let is_rw = shape.get(e.idx as usize).map(|t| t.call == "read" || t.call == "write").unwrap_or(false);
                if mid_transfer && is_rw {
                    let n = 1 + y.below(200);
                    plan.push(PlanEntry { idx: e.idx, kind: PlanKind::Short(n) });
                    plan.push(PlanEntry { idx: e.idx + 1, kind: e.kind.clone() });
                } else {
                    plan.push(e);
                }
            }
        }
        _ => {
            if !shape.is_empty() {
                let mut c = Rng::for_stream(seed, stream::CRASH);
                plan.push(PlanEntry { idx: c.below(shape.len() as u64), kind: PlanKind::Crash });
            }
        }
    }
    // a quarter of the faulted runs place their faults on the calls the program really makes (rehearsal on a copy
    // of the disk) instead of on the predicted ones
    if class >= 8 && y.chance(0.25) {
        let mclass = match class {
            8..=14 => 0,
            15..=18 => 1,
            _ => 2,
        };
        plan = vec![PlanEntry { idx: y.next_u64(), kind: PlanKind::Measured(mclass) }];
    }
    // the debug profile (overflow checks, debug assertions; a panic never terminates there): 30 % of the incarnations
    // of the thorough tier, 8 % of the quick tier's
    let debug_build = ctx.sut_debug.is_some() && s.chance(if ctx.thorough() { 0.3 } else { 0.08 });
    PScn { image, inc: Incarnation { argv, entropy: s.next_u64(), plan, debug_build }, rerun_entropy: s.next_u64(), fired_stored: fired, valid_input }
}

/// Thorough tier: systematic single-fault sweep (DESIGN §3.4) — sweep run `j` takes base scenario
/// `j / SWEEP_COMBOS` (a valid input with every output requested) and injects exactly one fault:
/// tracked call `(j % SWEEP_COMBOS) / 7` x kind `(j % SWEEP_COMBOS) % 7`
/// (EINTR, short 1 byte, short half, three call-specific hard errors, crash).
pub const SWEEP_CALLS: u64 = 23; // 2 inputs x 4 calls + 5 outputs x 3 calls
/// + 2 inputs x 6 announced sizes + 2 inputs x 2 failing status calls + 12 disk quotas
pub const SWEEP_EXTRA: u64 = 12 + 4 + 12;
pub const SWEEP_COMBOS: u64 = SWEEP_CALLS * 7 + SWEEP_EXTRA;

fn gen_p_sweep(ctx: &Ctx, j: u64) -> PScn {
    let base = j / SWEEP_COMBOS;
    let combo = j % SWEEP_COMBOS;
    let (call, kind) = if combo < SWEEP_CALLS * 7 { (combo / 7, combo % 7) } else { (u64::MAX, combo - SWEEP_CALLS * 7) };
    let seed = crate::rng::mix(&[ctx.verif_seed, 0x5357_4545_50, base]);
    let mut w = Rng::for_stream(seed, stream::WORKLOAD);
    let mut s = Rng::for_stream(seed, stream::SCHEDULE);
    // a valid building that evaluates: location factors or a complete generated factor file
    let focus = *w_pick_focus(&mut w);
    let mut p = gen_profile(&mut w, focus, false);
    p.f_cogen = false; // cogeneration without declared input is a typed error: keep the base on the success path
    p.f_ambiguous_aux = false;
    let b = gen_building(&mut w, &p);
    let lay = gen_layout(&mut w, b.lines.len());
    let mut image = DiskImage::default().with_file("in.csv", Blob::Utf8(render(&b, &lay)));
    let mut argv: Vec<String> = vec!["-c".into(), "in.csv".into()];
    if w.chance(0.5) {
        image = image.with_file("factors.csv", Blob::Utf8(gen_factor_file(&mut w, &b.carriers(), false, true)));
        argv.push("-f".into());
        argv.push("factors.csv".into());
    } else {
        argv.push("-l".into());
        argv.push(w.pick(&LOCS).to_string());
    }
    for (flag, name) in [("--oc", "oc.csv"), ("--of", "of.csv"), ("--json", "out.json"), ("--xml", "out.xml"), ("--txt", "out.txt")] {
        argv.push(flag.into());
        argv.push(name.into());
        if w.chance(0.3) {
            image = image.with_file(name, Blob::Utf8("STALE ".repeat(4000)));
        }
    }
    let shape = predicted_shape(&argv, &image);
    let mut plan = Vec::new();
    if call == u64::MAX {
        let extra = kind;
        let in_size = |k: u64| shape.iter().filter(|t| t.call == "read" && t.res > 0).nth(k as usize).map(|t| t.res.max(0) as u64).unwrap_or(0);
        if extra < 12 {
            let (k, which) = (extra / 6, extra % 6);
            let n = in_size(k);
            let lie = [0, 1, n / 2, n.saturating_sub(1), n + 1, 2 * n + 4096][which as usize];
            plan.push(PlanEntry { idx: k, kind: PlanKind::StatSize(lie) });
        } else if extra < 16 {
            let e = extra - 12;
            plan.push(PlanEntry { idx: e / 2, kind: PlanKind::StatErr([worldp::EIO, worldp::ENOSYS][(e % 2) as usize]) });
        } else {
            let q = [0u64, 1, 100, 1000, 2000, 3000, 4000, 6000, 10000, 20000, 40000, 80000][(extra - 16) as usize];
            plan.push(PlanEntry { idx: 0, kind: PlanKind::Quota(q) });
        }
    } else if let Some(t) = shape.get(call as usize) {
        let is_create = (t.req & 0o100) != 0;
        let hard = |n: usize| -> i32 {
            match t.call.as_str() {
                "open" if is_create => [worldp::EACCES, worldp::ENOSPC, worldp::EROFS][n],
                "open" => [worldp::ENOENT, worldp::EACCES, worldp::EMFILE][n],
                "read" => [worldp::EIO, worldp::EIO, worldp::EIO][n],
                _ => [worldp::ENOSPC, worldp::EIO, worldp::EDQUOT][n],
            }
        };
        let k = match kind {
            0 => Some(PlanKind::Eintr),
            1 => Some(PlanKind::Short(1)),
            2 => Some(PlanKind::Short((t.res.max(2) / 2) as u64)),
            3..=5 => {
                if t.call == "close" {
                    None
                } else {
                    Some(PlanKind::Err(hard((kind - 3) as usize)))
                }
            }
            _ => Some(PlanKind::Crash),
        };
        if let Some(k) = k {
            plan.push(PlanEntry { idx: call, kind: k });
        }
    }
    PScn { image, inc: Incarnation { argv, entropy: s.next_u64(), plan, debug_build: false }, rerun_entropy: s.next_u64(), fired_stored: Vec::new(), valid_input: true }
}

// ---------------------------------------------------------------------------------------------
// Process-world oracle (table of DESIGN §5 C16)

pub const ALLOWED_EXITS: [i32; 5] = [0, 64, 65, 73, 74];

pub fn judge_outcome(out: &worldp::Outcome, what: &str) -> Option<Violation> {
    if out.timed_out {
        return Some(Violation::new("hang", "watchdog", format!("{}: the program did not terminate within 30 s", what)));
    }
    if out.panicked {
        return Some(Violation::new(
            "panic",
            out.panic_site.clone(),
            format!("{}: the program panicked ({}): {}", what, out.status_label(), truncate(out.stderr_text().trim(), 400)),
        ));
    }
    if let Some(sig) = out.signal {
        return Some(Violation::new("signal", format!("{}", sig), format!("{}: the program was ended by signal {}: {}", what, sig, truncate(out.stderr_text().trim(), 300))));
    }
    let code = out.exit.unwrap_or(-1);
    let stderr = out.stderr_text();
    if code == 1 {
        let clap = stderr.contains("USAGE:") || stderr.contains("error:") || stderr.contains("For more information try");
        if !clap {
            return Some(Violation::new("exit_code", "1", format!("{}: exit code 1 without the option parser's usage message: {}", what, truncate(stderr.trim(), 300))));
        }
    } else if !ALLOWED_EXITS.contains(&code) {
        return Some(Violation::new("exit_code", format!("{}", code), format!("{}: undocumented exit code {}: {}", what, code, truncate(stderr.trim(), 300))));
    }
    if code != 0 && stderr.trim().is_empty() {
        return Some(Violation::new("silent_failure", format!("{}", code), format!("{}: exit code {} with nothing on stderr", what, code)));
    }
    None
}

pub fn execute_p(ctx: &Ctx, scn: &PScn, ex: &mut Exec, fp: &mut Fnv) -> Option<Violation> {
    let disk = worldp::Disk::create(ctx, &scn.image);
    let out = worldp::run_incarnation(ctx, &disk, &scn.inc, 0);
    worldp::outcome_digest(fp, &out);
    ex.count("process_incarnations", 1);
    ex.count(if scn.inc.debug_build { "incarnations_debug_build" } else { "incarnations_release_build" }, 1);
    ex.count("tracked_syscalls", out.trace.len() as u64);
    let fired = out.faults_fired();
    for f in &fired {
        ex.count(&format!("fault_fired:{}", f), 1);
    }
    ex.count(&format!("exit_status:{}", out.status_label().split('(').next().unwrap_or("?").to_string() + &out.exit.map(|c| format!("({})", c)).unwrap_or_default()), 1);
    let what = format!("cteepbd {}", scn.inc.argv.join(" "));
    let mut violation = None;
    if out.crashed_by_plan() {
        ex.count("crashes", 1);
        // nothing is required of the crashed incarnation; a clean re-run on the same disk obeys the first row
        let clean = Incarnation { plan: Vec::new(), entropy: scn.rerun_entropy, ..scn.inc.clone() };
        let out2 = worldp::run_incarnation(ctx, &disk, &clean, 1);
        worldp::outcome_digest(fp, &out2);
        ex.count("process_incarnations", 1);
        ex.count("tracked_syscalls", out2.trace.len() as u64);
        violation = judge_outcome(&out2, &format!("clean re-run after a crash at tracked call {} of `{}`", out.trace.len() - 1, what));
    } else {
        violation = violation.or_else(|| judge_outcome(&out, &what));
        if violation.is_none() {
            // a delivered hard fault must be reported, not swallowed
            let hard: Vec<&TraceLine> = out.trace.iter().filter(|t| t.fault == "err").collect();
            // a requested output that really could not be created (missing directory, path is a directory: no injected
            // fault needed) and was not created later either, yet exit 0: the error was swallowed as well
            if out.exit == Some(0) && hard.is_empty() {
                let mut named: Vec<&String> = Vec::new();
                for (i, a) in scn.inc.argv.iter().enumerate() {
                    if ["--oc", "--of", "--json", "--xml", "--txt"].contains(&a.as_str()) {
                        if let Some(v) = scn.inc.argv.get(i + 1) {
                            named.push(v);
                        }
                    }
                }
                for name in named {
                    let is_create = |t: &&TraceLine| (t.call == "open" || t.call == "openat") && (t.req & 0o100) != 0 && t.path == *name;
                    let failed = out.trace.iter().filter(is_create).filter(|t| t.res < 0 && t.errno != 4).last();
                    if let Some(f) = failed {
                        let later_ok = out.trace.iter().any(|t| t.idx > f.idx && ((is_create(&t) && t.res >= 0) || (t.call == "rename" && t.path == *name && t.res >= 0)));
                        if !later_ok {
                            violation = Some(Violation::new(
                                "error_swallowed",
                                "open",
                                format!("{}: the requested output {:?} could not be created ({}) but the program exited 0", what, name, worldp::errno_name(f.errno)),
                            ));
                            break;
                        }
                    }
                }
            }
            if let Some(t) = hard.first() {
                if out.exit == Some(0) {
                    // exit 0 after a failed call is legitimate only if the program really worked around it (retried,
                    // fell back to another way of writing): then everything it leaves behind equals what a fault-free
                    // run with the same entropy seed leaves behind on the same disk image
                    let twin_disk = worldp::Disk::create(ctx, &scn.image);
                    let twin = worldp::run_incarnation(ctx, &twin_disk, &Incarnation { plan: Vec::new(), ..scn.inc.clone() }, 0);
                    worldp::outcome_digest(fp, &twin);
                    ex.count("process_incarnations", 1);
                    let same = twin.exit == Some(0) && twin.stdout == out.stdout && twin_disk.snapshot() == disk.snapshot();
                    if same {
                        ex.count("hard_faults_absorbed_by_the_program(outputs equal the fault-free twin)", 1);
                    } else {
                        violation = Some(Violation::new(
                            "error_swallowed",
                            t.call.clone(),
                            format!(
                                "{}: {} on tracked call {} ({}) failed with {} but the program exited 0, and what it left behind differs from a fault-free run",
                                what, t.call, t.idx, t.path, worldp::errno_name(t.errno)
                            ),
                        ));
                    }
                }
            }
        }
    }
    // evidence
    let delivered = !fired.is_empty() || !scn.fired_stored.is_empty();
    if delivered || scn.valid_input {
        let mut h = Fnv::new();
        h.str("P");
        let mut kinds: Vec<String> = fired.iter().chain(scn.fired_stored.iter()).cloned().collect();
        kinds.sort();
        for k in kinds {
            h.str(&k);
        }
        h.str(&out.status_label());
        let mut flags: Vec<&String> = scn.inc.argv.iter().filter(|a| a.starts_with('-')).collect();
        flags.sort();
        for f in flags {
            h.str(f);
        }
        ex.nontrivial = Some(h.finish());
    }
    violation
}

impl Property for C16 {
    type Scn = Scn;
    fn id(&self) -> &'static str {
        "C16"
    }
    fn runs(&self, tier: Tier) -> u64 {
        match tier {
            Tier::Quick => 160_000,
            Tier::Thorough => 6_000_000,
        }
    }

    fn generate(&self, ctx: &Ctx, run_index: u64) -> Scn {
        let seed = ctx.run_seed(run_index);
        if ctx.sut_release.is_some() && run_index % 8 == 0 {
            Scn::P(gen_p(ctx, seed, run_index))
        } else if ctx.sut_release.is_some() && ctx.thorough() && run_index % 8 == 4 {
            Scn::P(gen_p_sweep(ctx, run_index / 8))
        } else {
            Scn::L(gen_l(ctx, seed, run_index))
        }
    }

    fn execute(&self, ctx: &Ctx, scn: &Scn) -> Exec {
        let mut ex = Exec::default();
        let mut fp = Fnv::new();
        match scn {
            Scn::L(l) => {
                let text = l.comp.text_lossy();
                let k_exp = tok_to_f32(&l.k_exp);
                let area = tok_to_f32(&l.area);
                let conv = |t: &Option<[String; 3]>| -> Option<Option<[f32; 3]>> {
                    match t {
                        None => Some(None),
                        Some(a) => {
                            let v: Vec<f32> = a.iter().filter_map(|x| tok_to_f32(x)).collect();
                            if v.len() == 3 {
                                Some(Some([v[0], v[1], v[2]]))
                            } else {
                                None
                            }
                        }
                    }
                };
                let (red1, red2) = (conv(&l.red1), conv(&l.red2));
                ex.count("library_runs", 1);
                for f in &l.fired {
                    ex.count(&format!("stored_fault:{}", f.split(':').nth(1).unwrap_or(f)), 1);
                }
                match (k_exp, area, red1, red2) {
                    (Some(k), Some(a), Some(r1), Some(r2)) => {
                        let factors = l.factors.clone();
                        let p = in_thread(l.sched, move || pipeline(&text, &factors, k, a, r1, r2));
                        for (s, o) in &p.stages {
                            fp.str(s).str(o);
                        }
                        ex.count("library_stages_executed", p.stages.len() as u64);
                        if p.stages.iter().any(|(s, o)| s.starts_with("energy_performance") && o == "ok") {
                            ex.count("library_runs_reaching_a_result", 1);
                        }
                        if let Some((stage, pn)) = &p.panic {
                            ex.violation = Some(Violation::new(
                                "panic",
                                pn.site.clone(),
                                format!("library stage {} panicked at {}: {}", stage, pn.site, pn.message),
                            ));
                        }
                        let mut h = Fnv::new();
                        h.str("L");
                        let mut kinds = l.fired.clone();
                        kinds.sort();
                        for k in &kinds {
                            h.str(k);
                        }
                        for (s, o) in &p.stages {
                            if !s.contains("lm=true") {
                                h.str(s).str(o);
                            }
                        }
                        if !l.fired.is_empty() || p.stages.iter().any(|(s, o)| s.starts_with("energy_performance") && o == "ok") {
                            ex.nontrivial = Some(h.finish());
                        }
                    }
                    _ => {
                        // non-numeric option text cannot be handed to the library API (it takes f32): the CLI world covers it
                        fp.str("non-numeric-option");
                        ex.count("library_runs_skipped_non_numeric_option", 1);
                    }
                }
            }
            Scn::P(p) => {
                ex.violation = execute_p(ctx, p, &mut ex, &mut fp);
                for f in &p.fired_stored {
                    ex.count(&format!("stored_fault:{}", f.split(':').nth(1).unwrap_or(f)), 1);
                }
            }
        }
        ex.fingerprint = fp.finish();
        ex
    }

    fn shrink(&self, scn: &Scn) -> Vec<Scn> {
        let mut out = Vec::new();
        match scn {
            Scn::L(l) => {
                if let FactorsIn::File(_) = l.factors {
                    let mut n = l.clone();
                    n.factors = FactorsIn::Loc("PENINSULA".into());
                    out.push(Scn::L(n));
                }
                for (field, simple) in [("k_exp", "0"), ("area", "1")] {
                    let mut n = l.clone();
                    let cur = if field == "k_exp" { &mut n.k_exp } else { &mut n.area };
                    if cur != simple {
                        *cur = simple.into();
                        out.push(Scn::L(n));
                    }
                }
                if l.red1.is_some() {
                    let mut n = l.clone();
                    n.red1 = None;
                    out.push(Scn::L(n));
                }
                if l.red2.is_some() {
                    let mut n = l.clone();
                    n.red2 = None;
                    out.push(Scn::L(n));
                }
                if let Blob::Utf8(t) = &l.comp {
                    for cand in faults::shrink_text(t) {
                        let mut n = l.clone();
                        n.comp = Blob::Utf8(cand);
                        out.push(Scn::L(n));
                    }
                }
                if let FactorsIn::File(Blob::Utf8(t)) = &l.factors {
                    for cand in faults::shrink_text(t) {
                        let mut n = l.clone();
                        n.factors = FactorsIn::File(Blob::Utf8(cand));
                        out.push(Scn::L(n));
                    }
                }
                if l.sched >= 64 {
                    for small in 0..4u64 {
                        let mut n = l.clone();
                        n.sched = small;
                        out.push(Scn::L(n));
                    }
                }
            }
            Scn::P(p) => {
                // drop plan entries
                for i in 0..p.inc.plan.len() {
                    let mut n = p.clone();
                    n.inc.plan.remove(i);
                    out.push(Scn::P(n));
                }
                // drop arguments: single flags, and flag+value pairs
                let argv = &p.inc.argv;
                let mut i = 0;
                while i < argv.len() {
                    if argv[i].starts_with('-') {
                        let mut j = i + 1;
                        while j < argv.len() && !(argv[j].starts_with('-') && argv[j].parse::<f64>().is_err()) {
                            j += 1;
                        }
                        let mut n = p.clone();
                        n.inc.argv.drain(i..j);
                        out.push(Scn::P(n));
                        i = j;
                    } else {
                        i += 1;
                    }
                }
                // drop files that are not named any more / simplify file contents
                for (name, blob) in &p.image.files {
                    if !argv.contains(name) {
                        let mut n = p.clone();
                        n.image.files.retain(|(x, _)| x != name);
                        out.push(Scn::P(n));
                    } else if let Blob::Utf8(t) = blob {
                        if name.ends_with(".csv") && !t.starts_with("STALE") {
                            for cand in faults::shrink_text(t) {
                                let mut n = p.clone();
                                n.image = n.image.with_file(name, Blob::Utf8(cand));
                                out.push(Scn::P(n));
                            }
                        }
                    }
                }
                if p.inc.debug_build {
                    let mut n = p.clone();
                    n.inc.debug_build = false;
                    out.push(Scn::P(n));
                }
                if p.inc.entropy >= 64 {
                    let mut n = p.clone();
                    n.inc.entropy = 1;
                    out.push(Scn::P(n));
                }
            }
        }
        out
    }

    fn sample(&self, scn: &Scn) -> Value {
        match scn {
            Scn::L(l) => json!({
                "world": "library",
                "components_text": truncate(&l.comp.text_lossy(), 1200),
                "factors": match &l.factors { FactorsIn::Loc(x) => json!({"loc": x}), FactorsIn::File(b) => json!({"file": truncate(&b.text_lossy(), 600)}) },
                "k_exp": l.k_exp, "area": l.area, "red1": l.red1, "red2": l.red2,
                "stored_data_faults": l.fired,
                "schedule(entropy seed)": format!("{:#x}", l.sched),
            }),
            Scn::P(p) => json!({
                "world": "process",
                "argv": p.inc.argv,
                "disk_files": p.image.files.iter().map(|(n, b)| json!({"name": n, "bytes": b.len(), "head": truncate(&b.text_lossy(), 300)})).collect::<Vec<_>>(),
                "disk_dirs": p.image.dirs,
                "fault_plan": p.inc.plan,
                "stored_data_faults": p.fired_stored,
                "entropy_seed": format!("{:#x}", p.inc.entropy),
                "debug_build": p.inc.debug_build,
            }),
        }
    }

    fn rule(&self) -> String {
        "Run = 7 of 8: library world - a generated or shipped components file (40% left valid, 50% with 1-4 stored-data faults placed in data \
         lines with p=0.8, 10% empty / comments-only / metadata-only / token soup), a location or a (possibly corrupted) factor file, and \
         numeric options incl. NaN/inf/out-of-range in 30% of runs, pushed through every public entry point (parse, factors, strip, \
         energy_performance with and without load matching on full and stripped factors, DHW indicator, plain/XML/JSON output, Display and \
         re-parse, re-normalize) in a fresh thread under a seeded hash schedule; 1 of 8: process world - the real CLI binary over a private \
         tmpfs disk (inputs possibly corrupted incl. non-UTF-8, stale / directory / missing-directory output paths, any subset of options) \
         under a fault plan: 40% none, 35% benign (EINTR, short reads/writes), 20% exactly one hard fault (ENOENT EACCES EISDIR EMFILE ENOMEM \
         EIO ENOSPC EROFS EDQUOT), 5% crash at a tracked call followed by a clean re-run. Oracle: no panic / abort / signal / hang; exit code \
         in {0,64,65,73,74} or 1 with the option parser's message; non-zero exit has a message on stderr; a delivered hard fault never ends \
         in exit 0. Non-trivial = at least one fault actually delivered (stored-data fault applied, or fault recorded in the shim trace), or \
         a valid input that reaches a result; distinct = distinct (world, multiset of delivered fault kinds, option flags, per-stage / exit \
         outcome signature)."
            .into()
    }

    fn assumptions(&self) -> Vec<String> {
        vec![
            "faults on stdout/stderr are outside the quantifier and are not injected (DESIGN §5 C16)".into(),
            "allocation failure is not injected (Rust aborts; no property covers memory exhaustion)".into(),
            "hang = no termination within 30 s of wall-clock (typical incarnation: 3 ms); a debug-build panic is detected from stderr and the spinning process is ended".into(),
            "the library API takes f32 options, so non-numeric option text is exercised through the CLI only".into(),
            "which of 64/65 a corrupted text deserves, and message wording, are not judged".into(),
        ]
    }

    fn extra_evidence(&self) -> Value {
        json!({
            "real_components": ["cteepbd library (all public entry points)", "cteepbd CLI binary, release profile (panic=abort); debug profile in the thorough tier", "clap, serde_json, Rust std I/O, glibc, kernel tmpfs"],
            "stubbed_components": ["entropy source (getrandom)", "pass-through layer over open/read/write/close of tracked files that may shorten, fail or pre-empt a call"],
            "fault_kinds_available": {"stored_data": faults::FAULT_KINDS, "syscall_benign": ["eintr(open/read/write)", "short read", "short write"], "syscall_other": ["read: premature end of file (file cut short after open)"], "syscall_hard": ["open: ENOENT EACCES EISDIR EMFILE ENOMEM", "create: EACCES ENOSPC EROFS ENOENT EISDIR EMFILE", "read: EIO", "write: ENOSPC EIO EDQUOT"], "lifecycle": ["crash (_exit) before tracked call k, then clean re-run"], "disk_history": ["stale longer file at output path", "output path is a directory", "output directory missing", "input file missing"]},
        })
    }
}
