pub mod c05;
pub mod c06;
pub mod c10;
pub mod c16;
pub mod c17;
pub mod c18;
