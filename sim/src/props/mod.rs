pub mod c10;
