//! C17 — every output format is well formed and reports the computed result (DESIGN §5 C17).

use std::collections::BTreeMap;

use cteepbd::types::{Energy, EnergyPerformance, HasValues, RenNrenCo2};
use cteepbd::{AsCtePlain, AsCteXml};
use serde::{Deserialize, Serialize};
use serde_json::{json, Value};

use crate::cmp::{Scale, EPS};
use crate::engine::{Ctx, Exec, Property, Tier, Violation};
use crate::entropy::{guard, in_thread};
use crate::faults::Blob;
use crate::gen::*;
use crate::model::*;
use crate::props::c10::truncate;
use crate::rewrite::*;
use crate::rng::{stream, Fnv, Rng};
use crate::sut::{self, Cls};
use crate::worldp::{self, DiskImage, Incarnation, PlanEntry, PlanKind};
use crate::xmlcheck;

pub struct C17;

#[derive(Clone, Debug, Serialize, Deserialize)]
pub struct ProcPart {
    pub entropy: u64,
    pub plan: Vec<PlanEntry>,
    /// Output files that already exist (stale, longer) before the run.
    pub stale: Vec<String>,
    /// A first incarnation that is crashed at this tracked call (leaving torn outputs behind).
    pub crash_first: Option<u64>,
    pub crash_entropy: u64,
    /// The stale files are not junk but exactly what this run is going to write, followed by more lines (the
    /// output of an earlier run for a bigger building that begins the same way).
    #[serde(default)]
    pub stale_is_longer_version: bool,
}

#[derive(Clone, Debug, Serialize, Deserialize)]
pub struct Scn {
    pub b: Building,
    pub layout: Layout,
    pub text: String,
    pub cfg: EvalCfg,
    pub sched: Vec<u64>,
    pub control_chars: bool,
    pub proc_part: Option<ProcPart>,
}

// ---------------------------------------------------------------------------------------------
// Independent re-rendering of the documented plain report from the result structure

fn f(v: f32, d: usize) -> String {
    format!("{:.*}", d, v)
}

fn rn(v: &RenNrenCo2) -> String {
    format!("ren {}, nren {}, tot: {}, co2: {}", f(v.ren, 2), f(v.nren, 2), f(v.ren + v.nren, 2), f(v.co2, 2))
}

fn table<K: std::fmt::Display>(m: &std::collections::HashMap<K, f32>) -> Vec<String> {
    let mut rows: Vec<String> = m.iter().map(|(k, v)| format!("- {}: {}", k, f(*v, 2))).collect();
    rows.sort();
    rows
}

fn table_rn<K: std::fmt::Display>(m: &std::collections::HashMap<K, RenNrenCo2>) -> Vec<String> {
    let mut rows: Vec<String> = m.iter().map(|(k, v)| format!("- {}: {}", k, rn(v))).collect();
    rows.sort();
    rows
}

/// An empty table still occupies one (empty) line of the template.
fn ext(l: &mut Vec<String>, rows: Vec<String>) {
    if rows.is_empty() {
        l.push(String::new());
    } else {
        l.extend(rows);
    }
}

pub fn expected_plain(ep: &EnergyPerformance) -> Vec<String> {
    let b = &ep.balance_m2;
    let mut l: Vec<String> = Vec::new();
    let dash = |v: Option<f32>| v.map(|x| f(x, 1)).unwrap_or_else(|| "-".into());
    l.push("** Eficiencia energética".into());
    l.push(String::new());
    l.push(format!("Area_ref = {} [m2]", f(ep.arearef, 2)));
    l.push(format!("k_exp = {}", f(ep.k_exp, 2)));
    l.push(format!("C_ep [kWh/m2.an]: ren = {}, nren = {}, tot = {}", f(b.we.b.ren, 1), f(b.we.b.nren, 1), f(b.we.b.ren + b.we.b.nren, 1)));
    l.push(format!("E_CO2 [kg_CO2e/m2.an]: {}", f(b.we.b.co2, 2)));
    l.push(format!("RER = {}", f(ep.rer, 2)));
    l.push(format!("RER_nrb = {}", f(ep.rer_nrb, 2)));
    l.push(String::new());
    l.push("** Demanda [kWh/m2.an]:".into());
    l.push(String::new());
    l.push(format!("- ACS: {}", dash(b.needs.ACS)));
    l.push(format!("- CAL: {}", dash(b.needs.CAL)));
    l.push(format!("- REF: {}", dash(b.needs.REF)));
    l.push(String::new());
    l.push("** Energía final (todos los vectores) [kWh/m2.an]:".into());
    l.push(String::new());
    l.push(format!("Energía consumida: {}", f(b.used.epus + b.used.nepus + b.used.cgnus, 2)));
    l.push(String::new());
    l.push(format!("+ Consumida en usos EPB: {}", f(b.used.epus, 2)));
    l.push(String::new());
    l.push("* por servicio:".into());
    ext(&mut l, table(&b.used.epus_by_srv));
    l.push(String::new());
    l.push("* por vector:".into());
    ext(&mut l, table(&b.used.epus_by_cr));
    l.push(String::new());
    l.push(format!("+ Consumida en usos no EPB: {}", f(b.used.nepus, 2)));
    l.push(String::new());
    l.push(format!("+ Consumida en cogeneración: {}", f(b.used.cgnus, 2)));
    l.push(String::new());
    l.push(format!("Generada: {}", f(b.prod.an, 2)));
    l.push(String::new());
    l.push("* por vector:".into());
    ext(&mut l, table(&b.prod.by_cr));
    l.push(String::new());
    l.push("* por origen:".into());
    ext(&mut l, table(&b.prod.by_src));
    l.push(String::new());
    l.push("* generada y usada en servicios EPB, por origen:".into());
    ext(&mut l, table(&b.prod.epus_by_src));
    l.push(String::new());
    l.push(format!("Suministrada {}:", f(b.del.an, 2)));
    l.push(String::new());
    l.push(format!("- de red: {}", f(b.del.grid, 2)));
    l.push(format!("- in situ: {}", f(b.del.onst, 2)));
    l.push(String::new());
    l.push(format!("Exportada: {}", f(b.exp.an, 2)));
    l.push(String::new());
    l.push(format!("- a la red: {}", f(b.exp.grid, 2)));
    l.push(format!("- a usos no EPB: {}", f(b.exp.nepus, 2)));
    l.push(String::new());
    l.push("** Energía primaria (ren, nren) [kWh/m2.an] y emisiones [kg_CO2e/m2.an]:".into());
    l.push(String::new());
    l.push(format!("Recursos utilizados (paso A): {}", rn(&b.we.a)));
    l.push(String::new());
    l.push("* por servicio:".into());
    ext(&mut l, table_rn(&b.we.a_by_srv));
    l.push(String::new());
    l.push(format!("Incluyendo el efecto de la energía exportada (paso B): {}", rn(&b.we.b)));
    l.push(String::new());
    l.push("* por servicio:".into());
    ext(&mut l, table_rn(&b.we.b_by_srv));
    if let Some(m) = &ep.misc {
        let pct = m
            .get("fraccion_renovable_demanda_acs_nrb")
            .and_then(|v| v.parse::<f32>().ok())
            .map(|r| f(100.0 * r, 1))
            .unwrap_or_else(|| "-".into());
        l.push(String::new());
        l.push("** Indicadores adicionales".into());
        l.push(format!("Porcentaje renovable de la demanda de ACS (perímetro próximo): {} [%]", pct));
    }
    l
}

fn num_of(tok: &str) -> Option<(f64, usize)> {
    let t = tok.trim_end_matches([',', ':']);
    if t.is_empty() || !t.chars().any(|c| c.is_ascii_digit()) && !matches!(t, "NaN" | "inf" | "-inf") {
        return None;
    }
    if !t.chars().all(|c| c.is_ascii_digit() || matches!(c, '.' | '-')) && !matches!(t, "NaN" | "inf" | "-inf") {
        return None;
    }
    let v = t.parse::<f64>().ok()?;
    let d = t.find('.').map(|p| t.len() - p - 1).unwrap_or(0);
    Some((v, d))
}

/// Compare two report texts line by line and token by token; numeric tokens may differ by
/// `units` units of their last printed digit plus `extra`.
/// Sort the rows of every table (maximal runs of lines starting with "- ") so that a comparison does not
/// depend on the order of rows: C17 requires the order not to vary between runs (checked across
/// schedules on the unsorted text), not a particular order.
pub fn sort_table_rows(lines: &[String]) -> Vec<String> {
    let mut out = lines.to_vec();
    let mut i = 0;
    while i < out.len() {
        if out[i].starts_with("- ") {
            let mut j = i;
            while j < out.len() && out[j].starts_with("- ") {
                j += 1;
            }
            out[i..j].sort();
            i = j;
        } else {
            i += 1;
        }
    }
    out
}

pub fn compare_reports(expected: &[String], actual: &[String], units: f64, extra: f64, rel: f64) -> Option<String> {
    if expected.len() != actual.len() {
        // find first differing line for the message
        let n = expected.len().min(actual.len());
        let first = (0..n).find(|&i| expected[i] != actual[i]).unwrap_or(n);
        return Some(format!(
            "{} lines expected, {} found; first difference at line {}: expected {:?}, found {:?}",
            expected.len(),
            actual.len(),
            first + 1,
            expected.get(first),
            actual.get(first)
        ));
    }
    for (i, (e, a)) in expected.iter().zip(actual.iter()).enumerate() {
        if e == a {
            continue;
        }
        let (te, ta): (Vec<&str>, Vec<&str>) = (e.split_whitespace().collect(), a.split_whitespace().collect());
        if te.len() != ta.len() {
            return Some(format!("line {}: expected {:?}, found {:?}", i + 1, e, a));
        }
        // relative term: w.r.t. the largest number on the line ("tot" is ren + nren, which may cancel)
        let line_max = te.iter().chain(ta.iter()).filter_map(|t| num_of(t)).map(|(v, _)| v.abs()).filter(|v| v.is_finite()).fold(0.0f64, f64::max);
        for (x, y) in te.iter().zip(ta.iter()) {
            if x == y {
                continue;
            }
            match (num_of(x), num_of(y)) {
                (Some((vx, dx)), Some((vy, dy))) if dx == dy => {
                    if vx.is_nan() && vy.is_nan() {
                        continue;
                    }
                    let tol = units * 10f64.powi(-(dx as i32)) * 1.0001 + extra + rel * line_max;
                    if !((vx - vy).abs() <= tol) {
                        return Some(format!("line {}: expected {:?}, found {:?} ({} vs {})", i + 1, e, a, x, y));
                    }
                }
                _ => return Some(format!("line {}: expected {:?}, found {:?}", i + 1, e, a)),
            }
        }
    }
    None
}

// ---------------------------------------------------------------------------------------------
// XML

fn fmt_vals(vs: &[f32]) -> String {
    vs.iter().map(|v| format!("{:.2}", v)).collect::<Vec<_>>().join(",")
}

/// Check the XML document against the result: well-formed, root, the four numbers, and one element
/// per metadata / factor / component / demand with its id and values.
pub fn check_xml(ep: &EnergyPerformance, xml: &str, units: f64, rel: f64) -> Result<Vec<xmlcheck::Element>, Violation> {
    let els = match xmlcheck::check(xml) {
        Ok(e) => e,
        Err(e) => {
            let from = e.pos.saturating_sub(60);
            let mut lo = from;
            while !xml.is_char_boundary(lo) {
                lo -= 1;
            }
            let mut hi = (e.pos + 40).min(xml.len());
            while !xml.is_char_boundary(hi) {
                hi += 1;
            }
            return Err(Violation::new(
                "xml_not_well_formed",
                e.what.split(|c: char| c == '<' || c == 'U').next().unwrap_or("").trim().to_string(),
                format!("XML output is not well-formed at byte {}: {} — context: {:?}", e.pos, e.what, &xml[lo..hi]),
            ));
        }
    };
    if els.first().map(|e| e.path.as_str()) != Some("BalanceEPB") {
        return Err(Violation::new("xml_content", "root", format!("root element is {:?}, documented root is BalanceEPB", els.first().map(|e| &e.path))));
    }
    let get = |path: &str| -> Vec<&xmlcheck::Element> { els.iter().filter(|e| e.path == path).collect() };
    let one_num = |path: &str, want: f32, d: usize| -> Result<(), Violation> {
        let v = get(path);
        if v.len() != 1 {
            return Err(Violation::new("xml_content", path.to_string(), format!("{} <{}> elements, expected exactly 1", v.len(), path)));
        }
        let want_s = f(want, d);
        let got_s = v[0].text.trim();
        if got_s != want_s {
            let ok = match (got_s.parse::<f64>(), want_s.parse::<f64>()) {
                (Ok(g), Ok(w)) => (g - w).abs() <= units * 10f64.powi(-(d as i32)) * 1.0001 + rel * g.abs().max(w.abs()) || (g.is_nan() && w.is_nan()),
                _ => false,
            };
            if !ok {
                return Err(Violation::new("xml_content", path.to_string(), format!("<{}> says {:?} but the result is {}", path, got_s, want_s)));
            }
        }
        Ok(())
    };
    let b = &ep.balance_m2.we.b;
    one_num("BalanceEPB/kexp", ep.k_exp, 2)?;
    one_num("BalanceEPB/AreaRef", ep.arearef, 2)?;
    {
        // tot = ren + nren may cancel: its relative tolerance refers to the terms
        let v = get("BalanceEPB/Epm2/tot");
        if v.len() != 1 {
            return Err(Violation::new("xml_content", "BalanceEPB/Epm2/tot", format!("{} <tot> elements, expected exactly 1", v.len())));
        }
        let want = b.ren + b.nren;
        let want_s = f(want, 1);
        let got_s = v[0].text.trim();
        if got_s != want_s {
            let ok = match (got_s.parse::<f64>(), want_s.parse::<f64>()) {
                (Ok(g), Ok(w)) => (g - w).abs() <= units * 0.10001 + rel * ((b.ren as f64).abs() + (b.nren as f64).abs()) || (g.is_nan() && w.is_nan()),
                _ => false,
            };
            if !ok {
                return Err(Violation::new("xml_content", "BalanceEPB/Epm2/tot", format!("<tot> says {:?} but the result is {}", got_s, want_s)));
            }
        }
    }
    one_num("BalanceEPB/Epm2/nren", b.nren, 1)?;
    // element counts
    let count = |path: &str| els.iter().filter(|e| e.path == path).count();
    let c = &ep.components;
    let want_counts = [
        ("BalanceEPB/FactoresDePaso/Factor", ep.wfactors.wdata.len()),
        ("BalanceEPB/FactoresDePaso/Metadato", ep.wfactors.wmeta.len()),
        ("BalanceEPB/Componentes/Metadato", c.meta.len()),
        ("BalanceEPB/Componentes/Consumo", c.data.iter().filter(|e| e.is_used()).count()),
        ("BalanceEPB/Componentes/Produccion", c.data.iter().filter(|e| e.is_generated()).count()),
        ("BalanceEPB/Componentes/EAux", c.data.iter().filter(|e| e.is_aux()).count()),
        ("BalanceEPB/Componentes/Salida", c.data.iter().filter(|e| e.is_out()).count()),
        ("BalanceEPB/Componentes/Demanda", [&c.needs.ACS, &c.needs.CAL, &c.needs.REF].iter().filter(|n| n.is_some()).count()),
    ];
    for (path, want) in want_counts {
        if count(path) != want {
            return Err(Violation::new("xml_content", path.to_string(), format!("{} <{}> elements but the result has {}", count(path), path, want)));
        }
    }
    // building demands: one element per declared service, with that service's values
    {
        let srv = get("BalanceEPB/Componentes/Demanda/Servicio");
        let vals = get("BalanceEPB/Componentes/Demanda/Valores");
        let want: Vec<(&str, &Vec<f32>)> =
            [("ACS", &c.needs.ACS), ("CAL", &c.needs.CAL), ("REF", &c.needs.REF)].into_iter().filter_map(|(n, v)| v.as_ref().map(|v| (n, v))).collect();
        if srv.len() != want.len() || vals.len() != want.len() {
            return Err(Violation::new("xml_content", "Demanda", "<Demanda> elements lack Servicio/Valores children".to_string()));
        }
        let mut got: Vec<(String, String)> = srv.iter().zip(vals.iter()).map(|(s, v)| (s.text.trim().to_string(), v.text.trim().to_string())).collect();
        got.sort();
        let mut exp: Vec<(String, String)> = want.iter().map(|(n, v)| (n.to_string(), fmt_vals(v))).collect();
        exp.sort();
        if got != exp {
            return Err(Violation::new(
                "xml_content",
                "Demanda",
                format!("<Demanda> elements say {:?} but the declared demands are {:?}", truncate(&format!("{:?}", got), 300), truncate(&format!("{:?}", exp), 300)),
            ));
        }
    }
    // component ids and values, in order, per kind
    for (tag, pred) in [
        ("Consumo", Energy::is_used as fn(&Energy) -> bool),
        ("Produccion", Energy::is_generated),
        ("EAux", Energy::is_aux),
        ("Salida", Energy::is_out),
    ] {
        let ids = get(&format!("BalanceEPB/Componentes/{}/Id", tag));
        let vals = get(&format!("BalanceEPB/Componentes/{}/Valores", tag));
        let comps: Vec<&Energy> = c.data.iter().filter(|e| pred(e)).collect();
        if ids.len() != comps.len() || vals.len() != comps.len() {
            return Err(Violation::new("xml_content", tag.to_string(), format!("<{}> elements lack Id/Valores children", tag)));
        }
        for (i, comp) in comps.iter().enumerate() {
            if ids[i].text.trim() != comp.id().to_string() {
                return Err(Violation::new("xml_content", format!("{}/Id", tag), format!("<{}> #{} has Id {:?}, component has {}", tag, i, ids[i].text, comp.id())));
            }
            let want = fmt_vals(comp.values());
            if vals[i].text.trim() != want {
                return Err(Violation::new(
                    "xml_content",
                    format!("{}/Valores", tag),
                    format!("<{}> #{} (id {}) has values {:?}, component has {:?}", tag, i, comp.id(), truncate(&vals[i].text, 200), truncate(&want, 200)),
                ));
            }
        }
    }
    Ok(els)
}

/// Canonical form of the XML for comparisons across schedules: (element path, text) sorted by path and
/// non-numeric text, so that the hash-dependent order of same-id automatic AUX elements is ignored.
fn xml_canon(els: &[xmlcheck::Element]) -> Vec<(String, String)> {
    // group leaf children under their component element index
    let mut rows: Vec<(String, String)> = Vec::new();
    let mut cur: Option<(String, Vec<(String, String)>)> = None;
    let depth = |p: &str| p.matches('/').count();
    for e in els {
        if depth(&e.path) == 2 {
            if let Some((p, kids)) = cur.take() {
                rows.push((p, kids.iter().map(|(k, v)| format!("{}={}", k, v)).collect::<Vec<_>>().join("|")));
            }
            cur = Some((e.path.clone(), vec![("".into(), e.text.trim().to_string())]));
        } else if depth(&e.path) > 2 {
            if let Some((_, kids)) = cur.as_mut() {
                kids.push((e.path.rsplit('/').next().unwrap_or("").to_string(), e.text.trim().to_string()));
            }
        } else if let Some((p, kids)) = cur.take() {
            rows.push((p, kids.iter().map(|(k, v)| format!("{}={}", k, v)).collect::<Vec<_>>().join("|")));
            rows.push((e.path.clone(), e.text.trim().to_string()));
        } else {
            rows.push((e.path.clone(), e.text.trim().to_string()));
        }
    }
    if let Some((p, kids)) = cur.take() {
        rows.push((p, kids.iter().map(|(k, v)| format!("{}={}", k, v)).collect::<Vec<_>>().join("|")));
    }
    // sort key: path + text with digits removed (stable)
    let key = |r: &(String, String)| -> String { format!("{}\u{0}{}", r.0, r.1.chars().filter(|c| !c.is_ascii_digit() && *c != '.' && *c != '-').collect::<String>()) };
    rows.sort_by(|a, b| key(a).cmp(&key(b)));
    rows
}

fn canon_mismatch(a: &[(String, String)], b: &[(String, String)], extra: f64) -> Option<String> {
    if a.len() != b.len() {
        return Some(format!("{} vs {} elements", a.len(), b.len()));
    }
    for (x, y) in a.iter().zip(b.iter()) {
        if x == y {
            continue;
        }
        if x.0 != y.0 {
            return Some(format!("element {} vs {}", x.0, y.0));
        }
        // token-wise numeric comparison (split on , | =)
        let split = |s: &str| -> Vec<String> { s.split(|c| c == ',' || c == '|' || c == '=').map(|t| t.to_string()).collect() };
        let (tx, ty) = (split(&x.1), split(&y.1));
        if tx.len() != ty.len() {
            return Some(format!("{}: {:?} vs {:?}", x.0, truncate(&x.1, 200), truncate(&y.1, 200)));
        }
        for (p, q) in tx.iter().zip(ty.iter()) {
            if p == q {
                continue;
            }
            let decimals = |t: &str| t.trim().find('.').map(|i| t.trim().len() - i - 1).unwrap_or(0);
            let unit = 10f64.powi(-(decimals(p).min(decimals(q)) as i32)) * 1.0001;
            match (p.trim().parse::<f64>(), q.trim().parse::<f64>()) {
                (Ok(u), Ok(v)) if (u - v).abs() <= unit + extra || (u.is_nan() && v.is_nan()) => {}
                _ => return Some(format!("{}: {:?} vs {:?}", x.0, truncate(&x.1, 200), truncate(&y.1, 200))),
            }
        }
    }
    None
}

// ---------------------------------------------------------------------------------------------
// JSON

/// Numeric closeness of two JSON values: numbers within abs + rel*|v|; everything else equal.
pub fn json_close(path: &str, a: &Value, b: &Value, rel: f64, abs: f64) -> Option<String> {
    match (a, b) {
        (Value::Object(x), Value::Object(y)) => {
            let keys: std::collections::BTreeSet<&String> = x.keys().chain(y.keys()).collect();
            for k in keys {
                match (x.get(k), y.get(k)) {
                    (Some(va), Some(vb)) => {
                        if let Some(m) = json_close(&format!("{}.{}", path, k), va, vb, rel, abs) {
                            return Some(m);
                        }
                    }
                    _ => return Some(format!("{}.{} present on one side only", path, k)),
                }
            }
            None
        }
        (Value::Array(x), Value::Array(y)) => {
            if x.len() != y.len() {
                return Some(format!("{}: arrays of {} vs {} elements", path, x.len(), y.len()));
            }
            for (i, (va, vb)) in x.iter().zip(y.iter()).enumerate() {
                if let Some(m) = json_close(&format!("{}[{}]", path, i), va, vb, rel, abs) {
                    return Some(m);
                }
            }
            None
        }
        (Value::Number(x), Value::Number(y)) => {
            let (x, y) = (x.as_f64().unwrap_or(f64::NAN), y.as_f64().unwrap_or(f64::NAN));
            if (x - y).abs() <= abs + rel * x.abs().max(y.abs()) {
                None
            } else {
                Some(format!("{}: {} vs {}", path, x, y))
            }
        }
        (x, y) => {
            if x == y {
                None
            } else {
                Some(format!("{}: {} vs {}", path, truncate(&x.to_string(), 100), truncate(&y.to_string(), 100)))
            }
        }
    }
}

/// (iv): the JSON document reads back into an equal result.
pub fn check_json(ep: &EnergyPerformance, json_text: &str) -> Result<Value, Violation> {
    let value: Value = match serde_json::from_str(json_text) {
        Ok(v) => v,
        Err(e) => return Err(Violation::new("json_invalid", "parse", format!("JSON output is not valid JSON: {}", e))),
    };
    let back: EnergyPerformance = match serde_json::from_str(json_text) {
        Ok(v) => v,
        Err(e) => return Err(Violation::new("json_readback", "deserialize", format!("JSON output cannot be read back into a result: {}", e))),
    };
    let (fa, fb) = (sut::flatten(ep), sut::flatten(&back));
    let keys: std::collections::BTreeSet<&String> = fa.items.keys().chain(fb.items.keys()).collect();
    for k in keys {
        match (fa.items.get(k), fb.items.get(k)) {
            (Some((x, cls)), Some((y, _))) => {
                let tol = match cls {
                    Cls::W | Cls::Wm2 => 0.00051 + 4.0 * EPS * x.abs(),
                    _ => 2.0 * EPS * x.abs() + 1e-40,
                };
                if !((x - y).abs() <= tol) && !(x.is_nan() && y.is_nan()) {
                    return Err(Violation::new("json_readback", "value", format!("{} is {} in the result but {} after reading the JSON back", k, x, y)));
                }
            }
            _ => return Err(Violation::new("json_readback", "field", format!("{} exists on one side only after reading the JSON back", k))),
        }
    }
    for (name, x, y) in [("rer", ep.rer, back.rer), ("rer_nrb", ep.rer_nrb, back.rer_nrb), ("rer_onst", ep.rer_onst, back.rer_onst), ("k_exp", ep.k_exp, back.k_exp), ("arearef", ep.arearef, back.arearef)] {
        if !(((x - y).abs() as f64) <= 2.0 * EPS * (x.abs() as f64) + 1e-40) {
            return Err(Violation::new("json_readback", "value", format!("{} is {} in the result but {} after reading the JSON back", name, x, y)));
        }
    }
    if fa.misc != fb.misc {
        return Err(Violation::new("json_readback", "misc", format!("misc differs after read-back: {:?} vs {:?}", fa.misc, fb.misc)));
    }
    // components, factors: through serde again (numbers within 1 ulp)
    let (ca, cb) = (serde_json::to_value(&ep.components).unwrap_or(Value::Null), serde_json::to_value(&back.components).unwrap_or(Value::Null));
    if let Some(m) = json_close("components", &ca, &cb, 2.0 * EPS, 1e-40) {
        return Err(Violation::new("json_readback", "components", format!("components differ after read-back: {}", m)));
    }
    let (wa, wb) = (serde_json::to_value(&ep.wfactors).unwrap_or(Value::Null), serde_json::to_value(&back.wfactors).unwrap_or(Value::Null));
    if let Some(m) = json_close("wfactors", &wa, &wb, 2.0 * EPS, 1e-40) {
        return Err(Violation::new("json_readback", "wfactors", format!("factors differ after read-back: {}", m)));
    }
    // the document itself states the struct's numbers: headline fields
    let b = &ep.balance_m2.we.b;
    for (ptr, want, abs) in [
        ("/k_exp", ep.k_exp, 0.0),
        ("/arearef", ep.arearef, 0.0),
        ("/rer", ep.rer, 0.0),
        ("/rer_nrb", ep.rer_nrb, 0.0),
        ("/balance_m2/we/b/ren", b.ren, 0.00051),
        ("/balance_m2/we/b/nren", b.nren, 0.00051),
        ("/balance_m2/we/b/co2", b.co2, 0.00051),
        ("/balance/we/a/nren", ep.balance.we.a.nren, 0.00051),
        ("/balance/used/epus", ep.balance.used.epus, 0.0),
        ("/balance/prod/an", ep.balance.prod.an, 0.0),
        ("/balance/del/grid", ep.balance.del.grid, 0.0),
        ("/balance/exp/an", ep.balance.exp.an, 0.0),
    ] {
        let got = value.pointer(ptr).and_then(|v| v.as_f64());
        let want = want as f64;
        match got {
            Some(g) if (g - want).abs() <= abs + 4.0 * EPS * want.abs() + 1e-40 => {}
            None if !want.is_finite() => {}
            other => return Err(Violation::new("json_content", ptr.to_string(), format!("JSON {} is {:?} but the result has {}", ptr, other, want))),
        }
    }
    Ok(value)
}

// ---------------------------------------------------------------------------------------------

struct Rendered {
    plain: Vec<String>,
    xml: Vec<(String, String)>,
    json: Value,
    order_sig: u64,
    max_factor: f64,
}

enum Outcome {
    Ok(Box<Rendered>),
    Err(sut::ErrKind),
    Panic(String, String),
    Bad(Violation),
}

fn render_and_check(text: &str, cfg: &EvalCfg) -> Outcome {
    let ep = match sut::evaluate(text, cfg) {
        Ok(Ok((_, ep))) => ep,
        Ok(Err(e)) => return Outcome::Err(e.kind),
        Err(p) => return Outcome::Panic(p.site, p.message),
    };
    let out = guard(|| (ep.to_plain(), ep.to_xml(), serde_json::to_string(&ep), serde_json::to_string_pretty(&ep)));
    let (plain, xml, json, json_pretty) = match out {
        Ok(x) => x,
        Err(p) => return Outcome::Panic(p.site, p.message),
    };
    // (iii) plain report states the result at the documented precision, tables sorted
    let expected = expected_plain(&ep);
    let actual: Vec<String> = plain.trim_end_matches('\n').lines().map(|s| s.to_string()).collect();
    if let Some(m) = compare_reports(&sort_table_rows(&expected), &sort_table_rows(&actual), 0.5, 0.0, 0.0) {
        return Outcome::Bad(Violation::new("plain_report", "content", format!("plain report does not state the computed result: {}", m)));
    }
    // (i) + (iii) XML
    let els = match check_xml(&ep, &xml, 0.5, 0.0) {
        Ok(e) => e,
        Err(v) => return Outcome::Bad(v),
    };
    // (iv) JSON
    let (json, json_pretty) = match (json, json_pretty) {
        (Ok(a), Ok(b)) => (a, b),
        (a, b) => return Outcome::Bad(Violation::new("json_invalid", "serialize", format!("serialization failed: {:?} {:?}", a.err().map(|e| e.to_string()), b.err().map(|e| e.to_string())))),
    };
    let value = match check_json(&ep, &json) {
        Ok(v) => v,
        Err(v) => return Outcome::Bad(v),
    };
    match serde_json::from_str::<Value>(&json_pretty) {
        Ok(v2) if v2 == value => {}
        _ => return Outcome::Bad(Violation::new("json_invalid", "pretty", "pretty and compact JSON documents differ as values".to_string())),
    }
    Outcome::Ok(Box::new(Rendered { plain: actual, xml: xml_canon(&els), json: value, order_sig: sut::order_signature(&ep), max_factor: sut::flatten(&ep).max_factor }))
}

// ---------------------------------------------------------------------------------------------
// Process world

fn cli_args(cfg: &EvalCfg, image: &mut DiskImage) -> Vec<String> {
    let mut a: Vec<String> = Vec::new();
    match &cfg.factors {
        FactorSpec::Loc(l) => {
            a.push("-l".into());
            a.push(l.clone());
            for (flag, v) in [("--red1", cfg.red1), ("--red2", cfg.red2)] {
                if let Some(x) = v {
                    a.push(flag.into());
                    for y in x {
                        a.push(format!("{}", y));
                    }
                }
            }
        }
        FactorSpec::File(t) => {
            *image = image.clone().with_file("factors.csv", Blob::Utf8(t.clone()));
            a.push("-f".into());
            a.push("factors.csv".into());
        }
    }
    a.push("-a".into());
    a.push(format!("{}", cfg.area));
    a.push("-k".into());
    a.push(format!("{}", cfg.k_exp));
    if cfg.load_matching {
        a.push("--load_matching".into());
    }
    if !cfg.strip {
        a.push("-F".into());
    }
    a
}

const OUT_FILES: [(&str, &str); 3] = [("--json", "out.json"), ("--xml", "out.xml"), ("--txt", "out.txt")];

fn process_world(ctx: &Ctx, scn: &Scn, pp: &ProcPart, ex: &mut Exec, fp: &mut Fnv) -> Option<Violation> {
    let mut image = DiskImage::default().with_file("in.csv", Blob::Utf8(scn.text.clone()));
    let mut argv = vec!["-c".to_string(), "in.csv".to_string()];
    argv.extend(cli_args(&scn.cfg, &mut image));
    for (flag, name) in OUT_FILES {
        argv.push(flag.into());
        argv.push(name.into());
    }
    // twin: fault-free, same entropy, fresh disk without history
    let twin_disk = worldp::Disk::create(ctx, &image);
    let twin_inc = Incarnation { argv: argv.clone(), entropy: pp.entropy, plan: Vec::new(), debug_build: false };
    let twin = worldp::run_incarnation(ctx, &twin_disk, &twin_inc, 0);
    worldp::outcome_digest(fp, &twin);
    ex.count("process_incarnations", 1);
    ex.count("tracked_syscalls", twin.trace.len() as u64);
    // main: disk with history
    let mut image2 = image.clone();
    for name in &pp.stale {
        let content = match (pp.stale_is_longer_version, twin_disk.read(name)) {
            (true, Some(mut bytes)) => {
                bytes.extend_from_slice(b"\nSTALE-BYTES-OF-AN-EARLIER-RUN: tail of a longer earlier output\n");
                Blob::from_bytes(&bytes)
            }
            _ => Blob::Utf8("STALE-BYTES-OF-AN-EARLIER-RUN ".repeat(3000)),
        };
        image2 = image2.with_file(name, content);
    }
    let disk = worldp::Disk::create(ctx, &image2);
    let mut seq = 0;
    if let Some(k) = pp.crash_first {
        let inc = Incarnation { argv: argv.clone(), entropy: pp.crash_entropy, plan: vec![PlanEntry { idx: k, kind: PlanKind::Crash }], debug_build: false };
        let o = worldp::run_incarnation(ctx, &disk, &inc, seq);
        seq += 1;
        worldp::outcome_digest(fp, &o);
        ex.count("process_incarnations", 1);
        ex.count("tracked_syscalls", o.trace.len() as u64);
        if o.crashed_by_plan() {
            ex.count("crashes", 1);
            if OUT_FILES.iter().any(|(_, n)| disk.exists(n)) {
                ex.count("crashes_leaving_output_files_behind", 1);
            }
        }
    }
    let inc = Incarnation { argv: argv.clone(), entropy: pp.entropy, plan: pp.plan.clone(), debug_build: false };
    let main = worldp::run_incarnation(ctx, &disk, &inc, seq);
    worldp::outcome_digest(fp, &main);
    ex.count("process_incarnations", 1);
    ex.count("tracked_syscalls", main.trace.len() as u64);
    let fired = main.faults_fired();
    for f in &fired {
        ex.count(&format!("fault_fired:{}", f), 1);
    }
    let what = format!("cteepbd {}", argv.join(" "));
    if let Some(v) = crate::props::c16::judge_outcome(&main, &what) {
        return Some(v);
    }
    if let Some(v) = crate::props::c16::judge_outcome(&twin, &what) {
        return Some(v);
    }
    if main.exit != twin.exit {
        return Some(Violation::new(
            "benign_fault_changed_outcome",
            "exit",
            format!("{}: exit {:?} under benign faults {:?} / disk history {:?} but {:?} without", what, main.exit, fired, pp.stale, twin.exit),
        ));
    }
    if main.exit != Some(0) {
        ex.count("process_runs_ending_in_typed_error", 1);
        return None;
    }
    if main.stdout != twin.stdout {
        return Some(Violation::new("benign_fault_changed_outcome", "stdout", format!("{}: stdout differs from the fault-free twin with the same entropy seed", what)));
    }
    for (_, name) in OUT_FILES {
        let (a, b) = (disk.read(name), twin_disk.read(name));
        match (a, b) {
            (Some(a), Some(b)) => {
                if a != b {
                    let stale = worldp::find_sub(&a, b"STALE-BYTES").is_some();
                    return Some(Violation::new(
                        "output_file_damaged",
                        name.to_string(),
                        format!(
                            "{}: {} has {} bytes but the fault-free twin (same entropy seed, empty disk) wrote {} bytes; faults delivered {:?}, pre-existing files {:?}, crashed predecessor {:?}{}",
                            what,
                            name,
                            a.len(),
                            b.len(),
                            fired,
                            pp.stale,
                            pp.crash_first,
                            if stale { "; the file still contains bytes of the stale file" } else { "" }
                        ),
                    ));
                }
                if pp.stale.iter().any(|s| s == name) {
                    ex.count("stale_files_overwritten", 1);
                }
            }
            (_, None) => {
                // no result to write (e.g. a components file without components): nothing to compare
                ex.count("process_runs_without_result", 1);
                return None;
            }
            _ => return Some(Violation::new("output_file_damaged", name.to_string(), format!("{}: {} missing after exit 0 although the fault-free twin wrote it", what, name))),
        }
    }
    // content of the files written by the real binary
    let txt = String::from_utf8_lossy(&disk.read("out.txt").unwrap_or_default()).into_owned();
    let stdout = main.stdout_text();
    if !stdout.ends_with(&format!("\n{}\n", txt)) {
        return Some(Violation::new("plain_report", "stdout-vs-txt", format!("{}: the report printed on stdout is not the one written to --txt", what)));
    }
    let json_text = String::from_utf8_lossy(&disk.read("out.json").unwrap_or_default()).into_owned();
    let ep: EnergyPerformance = match serde_json::from_str(&json_text) {
        Ok(e) => e,
        Err(e) => return Some(Violation::new("json_readback", "deserialize", format!("{}: out.json cannot be read back: {}", what, e))),
    };
    // the document records the data the result was computed from: every declared consumption, production and output
    // line (tags, id, comment, values) and every declared metadata item must be in it as declared
    {
        use crate::props::c05::{key_of_comp, key_of_line, Key};
        let mut have: BTreeMap<Key, i64> = BTreeMap::new();
        for c in &ep.components.data {
            if let Some(k) = key_of_comp(c) {
                *have.entry(k).or_default() += 1;
            }
        }
        for l in &scn.b.lines {
            if let Some(k) = key_of_line(l) {
                let n = have.entry(k.clone()).or_default();
                *n -= 1;
                if *n < 0 {
                    return Some(Violation::new(
                        "json_content",
                        "component",
                        format!("{}: the declared line {} {} [{}] # {:?} is not in the components of out.json as declared", what, k.1, k.0, k.2, k.3),
                    ));
                }
            }
        }
        for (key, value) in &scn.b.meta {
            let canon = match key.as_str() {
                "Area_ref" => "CTE_AREAREF",
                "kexp" => "CTE_KEXP",
                "Localizacion" => "CTE_LOCALIZACION",
                k => k,
            };
            if ["CTE_AREAREF", "CTE_KEXP", "CTE_RED1", "CTE_RED2", "CTE_LOCALIZACION"].contains(&canon) {
                continue; // the program records the values it used under these keys, in its own spelling
            }
            if !ep.components.meta.iter().any(|m| m.key == canon && m.value.trim() == value.trim()) {
                return Some(Violation::new(
                    "json_content",
                    "metadata",
                    format!("{}: the declared metadata item {:?}: {:?} is not in out.json as declared (found {:?})", what, key, value, ep.components.meta.iter().filter(|m| m.key == canon).map(|m| m.value.clone()).collect::<Vec<_>>()),
                ));
            }
        }
    }
    // the JSON rounds RenNrenCo2 to 3 decimals: the other two renderings must agree with it within one unit
    // of their last digit
    let expected = expected_plain(&ep);
    let actual: Vec<String> = txt.trim_end_matches('\n').lines().map(|s| s.to_string()).collect();
    if let Some(m) = compare_reports(&sort_table_rows(&expected), &sort_table_rows(&actual), 1.0, 0.0011, 8.0 * EPS) {
        return Some(Violation::new("plain_report", "content", format!("{}: --txt report disagrees with the result recorded in --json: {}", what, m)));
    }
    let xml = String::from_utf8_lossy(&disk.read("out.xml").unwrap_or_default()).into_owned();
    if let Err(v) = check_xml(&ep, &xml, 1.0, 8.0 * EPS) {
        return Some(v);
    }
    None
}

impl Property for C17 {
    type Scn = Scn;
    fn id(&self) -> &'static str {
        "C17"
    }
    fn runs(&self, tier: Tier) -> u64 {
        match tier {
            Tier::Quick => 40_000,
            Tier::Thorough => 600_000,
        }
    }

    fn generate(&self, ctx: &Ctx, run_index: u64) -> Scn {
        let seed = ctx.run_seed(run_index);
        let mut w = Rng::for_stream(seed, stream::WORKLOAD);
        let focus = if w.chance(0.7) { Focus::Output } else { Focus::General };
        let mut p = gen_profile(&mut w, focus, ctx.thorough());
        if p.steps > 24 && !ctx.thorough() {
            p.steps = 12; // quick tier: short series; the thorough tier keeps the long ones (hundreds to 8760 values per line)
        }
        let control_chars = w.chance(0.1);
        p.f_control_chars = control_chars;
        let b = gen_building(&mut w, &p);
        let layout = gen_layout(&mut w, b.lines.len());
        let text = render(&b, &layout);
        let mut o = Rng::for_stream(seed, stream::OPTIONS);
        let mut cfg = gen_evalcfg(&mut o, &b, true);
        if let FactorSpec::File(_) = cfg.factors {
            // hostile comments and metadata in the factor file too
            cfg.factors = FactorSpec::File(gen_factor_file(&mut o, &b.carriers(), true, true));
        }
        let mut s = Rng::for_stream(seed, stream::SCHEDULE);
        let k = if ctx.thorough() { 8 } else { 4 };
        let sched: Vec<u64> = (0..k).map(|_| s.next_u64()).collect();
        let proc_every = 10;
        let proc_part = if ctx.sut_release.is_some() && run_index % proc_every == 0 {
            let mut y = Rng::for_stream(seed, stream::SYSCALLS);
            let mut d = Rng::for_stream(seed, stream::DISK);
            let mut image = DiskImage::default().with_file("in.csv", Blob::Utf8(text.clone()));
            let mut argv = vec!["-c".to_string(), "in.csv".to_string()];
            argv.extend(cli_args(&cfg, &mut image));
            for (flag, name) in OUT_FILES {
                argv.push(flag.into());
                argv.push(name.into());
            }
            let shape = crate::props::c16::predicted_shape(&argv, &image);
            let mut plan = if y.chance(0.65) { worldp::benign_plan(&mut y, &shape, 0.5) } else { Vec::new() };
            if !plan.is_empty() && y.chance(0.25) {
                // faults on the calls the program really makes (rehearsed on a copy of the disk)
                plan = vec![PlanEntry { idx: y.next_u64(), kind: PlanKind::Measured(0) }];
            }
            let mut stale: Vec<String> = OUT_FILES.iter().filter(|_| d.chance(0.35)).map(|(_, n)| n.to_string()).collect();
            for (_, n) in OUT_FILES.iter() {
                if d.chance(0.12) {
                    stale.push(worldp::stale_sibling(&mut d, n));
                }
            }
            let mut c = Rng::for_stream(seed, stream::CRASH);
            // crash an earlier incarnation somewhere inside its output phase (the last 9 tracked calls)
            let crash_first = if c.chance(0.25) && shape.len() >= 9 { Some(shape.len() as u64 - 9 + c.below(9)) } else { None };
            let stale_is_longer_version = d.chance(0.3);
            Some(ProcPart { entropy: s.next_u64(), plan, stale, crash_first, crash_entropy: s.next_u64(), stale_is_longer_version })
        } else {
            None
        };
        Scn { b, layout, text, cfg, sched, control_chars, proc_part }
    }

    fn execute(&self, ctx: &Ctx, scn: &Scn) -> Exec {
        let mut ex = Exec::default();
        let mut fp = Fnv::new();
        let sc = Scale::of(&scn.b, scn.cfg.area as f64);
        let mut violation: Option<Violation> = None;
        let mut oks: Vec<(u64, Box<Rendered>)> = Vec::new();
        let mut orders = std::collections::BTreeSet::new();
        let mut statuses: Vec<String> = Vec::new();
        for &sigma in &scn.sched {
            let (t, c) = (scn.text.clone(), scn.cfg.clone());
            let out = in_thread(sigma, move || render_and_check(&t, &c));
            ex.count("library_renderings", 1);
            match out {
                Outcome::Ok(r) => {
                    fp.str("ok").u64(r.order_sig);
                    for l in &r.plain {
                        fp.str(l);
                    }
                    orders.insert(r.order_sig);
                    statuses.push("ok".into());
                    oks.push((sigma, r));
                }
                Outcome::Err(k) => {
                    fp.str(&format!("err{:?}", k));
                    statuses.push(format!("err{:?}", k));
                    ex.count("typed_errors(no output to check)", 1);
                }
                Outcome::Panic(site, msg) => {
                    fp.str("panic").str(&site);
                    statuses.push("panic".into());
                    if violation.is_none() {
                        violation = Some(Violation::new("panic", site, format!("under entropy seed {:#x}: {}", sigma, msg)));
                    }
                }
                Outcome::Bad(mut v) => {
                    fp.str("bad").str(&v.kind).str(&v.site);
                    statuses.push("bad".into());
                    if violation.is_none() {
                        v.message = format!("under entropy seed {:#x}: {}", sigma, v.message);
                        violation = Some(v);
                    }
                }
            }
        }
        // (v) nothing varies between runs
        if violation.is_none() && oks.len() >= 2 {
            let (s0, r0) = &oks[0];
            let f = oks.iter().map(|(_, r)| r.max_factor).fold(1.0f64, f64::max);
            let area = if sc.area > 0.0 { sc.area } else { 1.0 };
            let noise = sc.c_abs() * EPS * sc.e_an.max(sc.n_an) * f;
            for (si, ri) in oks.iter().skip(1) {
                // ratios may move more than one digit only when their denominator is rounding noise: exclude those lines
                let den = r0.json.pointer("/balance/we/b/ren").and_then(|v| v.as_f64()).unwrap_or(0.0)
                    + r0.json.pointer("/balance/we/b/nren").and_then(|v| v.as_f64()).unwrap_or(0.0);
                let ratio_ok = den.abs() > crate::cmp::RATIO_MIN_DEN * sc.e_an * f;
                let filt = |ls: &Vec<String>| -> Vec<String> {
                    ls.iter().filter(|l| ratio_ok || !(l.starts_with("RER") || l.starts_with("Porcentaje"))).filter(|l| !l.starts_with("Porcentaje")).cloned().collect()
                };
                let rmax = [r0.json.get("rer"), r0.json.get("rer_nrb"), ri.json.get("rer"), ri.json.get("rer_nrb")].iter().filter_map(|v| v.and_then(|x| x.as_f64())).fold(0.0f64, |m, v| m.max(v.abs()));
                let ratio_extra = if ratio_ok { crate::cmp::ratio_tol(sc.e_an * f, den.abs(), rmax, 0.0) } else { 0.0 };
                if let Some(m) = compare_reports(&filt(&r0.plain), &filt(&ri.plain), 1.0, (noise / area).max(ratio_extra), 0.0) {
                    violation = Some(Violation::new(
                        "output_varies_between_runs",
                        "plain",
                        format!("plain report under entropy seed {:#x} vs {:#x}: {}", s0, si, m),
                    ));
                    break;
                }
                if let Some(m) = canon_mismatch(&r0.xml, &ri.xml, noise.max(noise / area)) {
                    violation = Some(Violation::new("output_varies_between_runs", "xml", format!("XML under entropy seed {:#x} vs {:#x}: {}", s0, si, m)));
                    break;
                }
                if let Some(m) = worldp::json_balance_mismatch(&r0.json, &ri.json, &sc) {
                    violation = Some(Violation::new("output_varies_between_runs", "json", format!("JSON under entropy seed {:#x} vs {:#x}: {}", s0, si, m)));
                    break;
                }
            }
        }
        if violation.is_none() && statuses.iter().any(|s| s != &statuses[0]) {
            violation = Some(Violation::new("output_varies_between_runs", "status", format!("outcomes differ between schedules: {:?}", statuses)));
        }
        if violation.is_none() {
            if let Some(pp) = &scn.proc_part {
                violation = process_world(ctx, scn, pp, &mut ex, &mut fp);
            }
        }
        if scn.control_chars {
            ex.count("runs_with_C0_control_characters_in_text", 1);
        }
        if scn.b.lines.iter().any(|l| l.kind.is_need()) {
            ex.count("runs_with_demands", 1);
        }
        let hostile = scn.b.lines.iter().any(|l| l.comment.contains(['<', '>', '&', '"', '\'', '\\'])) || scn.b.meta.iter().any(|(_, v)| v.contains(['<', '>', '&', '"', '\'', '\\']));
        if hostile {
            ex.count("runs_with_markup_characters_in_text", 1);
        }
        // non-trivial rule
        let nontrivial_l = !oks.is_empty() && scn.b.carriers().len() >= 2 && orders.len() >= 2;
        let nontrivial_p = scn.proc_part.as_ref().map(|p| !p.plan.is_empty() || !p.stale.is_empty() || p.crash_first.is_some()).unwrap_or(false);
        if nontrivial_l || nontrivial_p {
            let mut h = Fnv::new();
            h.u64(scn.b.feature_sig());
            for o in &orders {
                h.u64(*o);
            }
            if let Some(p) = &scn.proc_part {
                h.u64(p.plan.len() as u64).u64(p.stale.len() as u64).u64(p.crash_first.unwrap_or(999));
            }
            ex.nontrivial = Some(h.finish());
        }
        ex.order_sigs = orders.into_iter().collect();
        ex.fingerprint = fp.finish();
        ex.violation = violation;
        ex
    }

    fn shrink(&self, scn: &Scn) -> Vec<Scn> {
        let mut out = Vec::new();
        if scn.proc_part.is_some() {
            let mut n = scn.clone();
            n.proc_part = None;
            out.push(n);
        }
        if let Some(pp) = &scn.proc_part {
            if pp.crash_first.is_some() {
                let mut n = scn.clone();
                n.proc_part.as_mut().unwrap().crash_first = None;
                out.push(n);
            }
            for i in 0..pp.stale.len() {
                let mut n = scn.clone();
                n.proc_part.as_mut().unwrap().stale.remove(i);
                out.push(n);
            }
            for i in 0..pp.plan.len() {
                let mut n = scn.clone();
                n.proc_part.as_mut().unwrap().plan.remove(i);
                out.push(n);
            }
        }
        if scn.sched.len() > 2 {
            for i in 1..scn.sched.len() {
                let mut n = scn.clone();
                n.sched = vec![scn.sched[0], scn.sched[i]];
                out.push(n);
            }
        }
        if scn.sched.len() > 1 {
            for i in 0..scn.sched.len() {
                let mut n = scn.clone();
                n.sched = vec![scn.sched[i]];
                out.push(n);
            }
        }
        for nb in shrink_building(&scn.b) {
            let mut n = scn.clone();
            n.b = nb;
            n.text = render(&n.b, &n.layout);
            out.push(n);
        }
        // shorten comments and metadata values
        for i in 0..scn.b.lines.len() {
            let c = &scn.b.lines[i].comment;
            if c.chars().count() > 1 {
                for keep in [c.chars().take(c.chars().count() / 2).collect::<String>(), c.chars().skip(c.chars().count() / 2).collect::<String>()] {
                    let keep = keep.trim().to_string();
                    if !keep.is_empty() {
                        let mut n = scn.clone();
                        n.b.lines[i].comment = keep;
                        n.text = render(&n.b, &n.layout);
                        out.push(n);
                    }
                }
            }
        }
        for i in 0..scn.b.meta.len() {
            let c = &scn.b.meta[i].1;
            if c.chars().count() > 1 {
                for keep in [c.chars().take(c.chars().count() / 2).collect::<String>(), c.chars().skip(c.chars().count() / 2).collect::<String>()] {
                    let keep = keep.trim().to_string();
                    if !keep.is_empty() {
                        let mut n = scn.clone();
                        n.b.meta[i].1 = keep;
                        n.text = render(&n.b, &n.layout);
                        out.push(n);
                    }
                }
            }
        }
        for l in shrink_layout(&scn.layout) {
            let mut n = scn.clone();
            n.layout = l;
            n.text = render(&n.b, &n.layout);
            out.push(n);
        }
        for c in shrink_cfg(&scn.cfg) {
            let mut n = scn.clone();
            n.cfg = c;
            out.push(n);
        }
        out
    }

    fn sample(&self, scn: &Scn) -> Value {
        json!({
            "text": truncate(&scn.text, 1800),
            "cfg": scn.cfg,
            "schedules(entropy seeds)": scn.sched.iter().map(|s| format!("{:#x}", s)).collect::<Vec<_>>(),
            "control_chars_class": scn.control_chars,
            "process_world": scn.proc_part,
        })
    }

    fn rule(&self) -> String {
        "Run = one generated building (demands present/absent, 2+ carriers and services, values up to 1e12 in 15% of Output-focus runs, \
         comments and metadata drawn from a hostile alphabet incl. < > & \" ' \\ # , non-ASCII, ]]>, <!--; C0 control characters as a \
         separately counted 10% class; user factor files with hostile comments), evaluated under K seeded hash schedules (K=4 quick, 8 \
         thorough) and rendered as plain text, XML and JSON. Per rendering: plain report compared token by token with an independent \
         re-rendering of the documented template from the result struct (numbers within half a unit of the last printed digit, table rows \
         sorted); XML checked by a strict XML 1.0 well-formedness scanner plus kexp/AreaRef/tot/nren, element counts, ids and value lists of \
         every component; JSON parsed, deserialized back and compared field by field (RenNrenCo2 within 0.0005, others within 1 ulp). Across \
         schedules the three renderings must agree (numbers within one last digit + f32 noise; XML modulo same-id AUX order; JSON as values). \
         Every 10th run also through the real CLI with --json --xml --txt: fault-free twin vs a run under benign faults (EINTR, short \
         writes/reads) over a disk with stale longer files and/or torn outputs of a crashed predecessor; outputs must be byte-identical to \
         the twin's, stdout must carry the --txt report, and --txt/--xml must agree with the result recorded in --json. Non-trivial = \
         (>=2 carriers and >=2 order signatures realised) or (a process-world run with a non-empty fault plan, stale file or crashed \
         predecessor); distinct = distinct (feature signature, order signatures, plan/stale/crash shape)."
            .into()
    }

    fn assumptions(&self) -> Vec<String> {
        vec![
            "the plain-report template is re-implemented from the documented format; a deliberate change of the template needs the oracle to follow".into(),
            "fidelity of the text inside <Comentario>/<Clave>/<Valor> is not required (the tool maps \\ to &apos;): only well-formedness and the numbers".into(),
            "JSON object key order is not part of the claim (JSON objects are unordered); XML order of same-id automatic AUX elements is ignored".into(),
            "values are finite (non-finite numbers serialize as null in JSON and are outside the quantifier)".into(),
            "C17 says nothing about failed writes: under hard faults only C16's oracle applies".into(),
        ]
    }

    fn extra_evidence(&self) -> Value {
        json!({
            "real_components": ["cteepbd library: to_plain, to_xml, serde Serialize/Deserialize of EnergyPerformance", "cteepbd CLI binary (release) writing --json/--xml/--txt over tmpfs"],
            "stubbed_components": ["entropy source (getrandom)", "pass-through layer over open/read/write/close of tracked files (EINTR, short transfers, crash)"],
            "xml_oracle": "sim/src/xmlcheck.rs, cross-checked against Python expat by tools/xml_crosscheck.py",
        })
    }
}

// keep the BTreeMap import used (evidence helpers may grow)
#[allow(dead_code)]
type _Unused = BTreeMap<String, String>;
