//! C18 — components and factors survive being written out and read back (DESIGN §5 C18).

use std::collections::BTreeMap;

use cteepbd::types::{Energy, HasValues};
use cteepbd::{Components, Factors};
use serde::{Deserialize, Serialize};
use serde_json::{json, Value};

use crate::cmp::{compare, Scale, EPS};
use crate::engine::{Ctx, Exec, Property, Tier, Violation};
use crate::entropy::{guard, in_thread};
use crate::faults::Blob;
use crate::gen::*;
use crate::model::*;
use crate::props::c10::truncate;
use crate::rewrite::*;
use crate::rng::{stream, Fnv, Rng};
use crate::sut;
use crate::worldp::{self, DiskImage, Incarnation, PlanEntry, PlanKind};

pub struct C18;

/// Safety factor on the printed-precision slack of the *result* comparison (see `roundtrip_and_check`).
const SLACK_SAFETY: f64 = 4.0;

#[derive(Clone, Debug, Serialize, Deserialize)]
pub struct ProcPart {
    pub entropy1: u64,
    pub entropy2: u64,
    pub plan1: Vec<PlanEntry>,
    pub plan2: Vec<PlanEntry>,
    pub stale: Vec<String>,
    /// Crash the first attempt of incarnation 1 at this tracked call, then re-run it cleanly.
    pub crash_first: Option<u64>,
    pub crash_entropy: u64,
    /// CLI spelling of the options (k_exp with one decimal, area with two: what the metadata stores).
    pub k_exp: String,
    pub area: String,
    pub pass_area: bool,
    pub pass_kexp: bool,
    /// Save over the input files themselves (`--oc` = the `-c` file, `--of` = the `-f` file): a command
    /// sequence over the same files.
    #[serde(default)]
    pub in_place: bool,
    /// Incarnation 2 saves again (--oc/--of to new paths) and a third incarnation evaluates that second
    /// generation: r3 must still equal r1 up to the printed precision.
    #[serde(default)]
    pub second_generation: bool,
    /// Before incarnation 1, an identical earlier run wrote the same outputs and more lines were appended to
    /// them: the files at the output paths begin with exactly what is going to be written.
    #[serde(default)]
    pub stale_is_longer_version: bool,
}

#[derive(Clone, Debug, Serialize, Deserialize)]
pub struct Scn {
    pub b: Building,
    pub layout: Layout,
    pub text: String,
    pub cfg: EvalCfg,
    pub sched: Vec<u64>,
    pub more_decimals: bool,
    pub proc_part: Option<ProcPart>,
}

fn printed2(v: f32) -> f32 {
    format!("{:.2}", v).parse::<f32>().unwrap_or(f32::NAN)
}
fn printed3(v: f32) -> f32 {
    format!("{:.3}", v).parse::<f32>().unwrap_or(f32::NAN)
}
fn same_f32(a: f32, b: f32) -> bool {
    a.to_bits() == b.to_bits() || (a == b) || (a.is_nan() && b.is_nan())
}

fn tags_of(c: &Energy) -> String {
    match c {
        Energy::Used(e) => format!("CONSUMO,{},{}", e.service, e.carrier),
        Energy::Prod(e) => format!("PRODUCCION,{}", e.source),
        Energy::Aux(_) => "AUX".into(),
        Energy::Out(e) => format!("SALIDA,{}", e.service),
    }
}

/// Number of values of `c` that lose precision when printed with two decimals, total and per step.
fn imprecise_counts(c: &Components) -> (f64, f64) {
    let mut total = 0.0;
    let mut lines = 0.0;
    for e in &c.data {
        let n = e.values().iter().filter(|v| !same_f32(printed2(**v), **v)).count();
        total += n as f64;
        if n > 0 {
            lines += 1.0;
        }
    }
    for nd in [&c.needs.ACS, &c.needs.CAL, &c.needs.REF].into_iter().flatten() {
        let n = nd.iter().filter(|v| !same_f32(printed2(**v), **v)).count();
        total += n as f64;
        if n > 0 {
            lines += 1.0;
        }
    }
    (total, lines)
}

/// True if a cogeneration component (EL_COGEN production, COGEN use) has a value that loses precision in print.
fn cogen_imprecise(c: &Components) -> bool {
    c.data.iter().filter(|e| e.is_cogen_pr() || e.is_cogen_use()).any(|e| e.values().iter().any(|v| !same_f32(printed2(*v), *v)))
}

/// Compare a normalized component set with the one obtained by printing and re-reading it.
fn check_components_roundtrip(c: &Components, c2: &Components, exact_outputs: bool) -> Option<Violation> {
    // metadata: same entries; their order matters only among entries with the same key (the first one is the
    // one in force), so both sides are stably sorted by key before the comparison
    let mut m1: Vec<(String, String)> = c.meta.iter().map(|m| (m.key.clone(), m.value.clone())).collect();
    let mut m2: Vec<(String, String)> = c2.meta.iter().map(|m| (m.key.clone(), m.value.clone())).collect();
    m1.sort_by(|a, b| a.0.cmp(&b.0));
    m2.sort_by(|a, b| a.0.cmp(&b.0));
    if m1 != m2 {
        let i = (0..m1.len().min(m2.len())).find(|&i| m1[i] != m2[i]).unwrap_or(m1.len().min(m2.len()));
        return Some(Violation::new(
            "roundtrip_metadata",
            "components",
            format!("metadata differ after write-out/read-back: #{}: {:?} vs {:?} ({} vs {} entries)", i, m1.get(i), m2.get(i), m1.len(), m2.len()),
        ));
    }
    // non-AUX components per id, in order
    let n = c.num_steps();
    let ids: std::collections::BTreeSet<i32> = c.data.iter().chain(c2.data.iter()).map(|e| e.id()).collect();
    for id in ids {
        let a: Vec<&Energy> = c.data.iter().filter(|e| e.id() == id && !e.is_aux()).collect();
        let b: Vec<&Energy> = c2.data.iter().filter(|e| e.id() == id && !e.is_aux()).collect();
        // tolerance for residual completions created by re-normalizing rounded values
        let resid_tol = |carrier_src: &str| -> Vec<f64> {
            let mut t = vec![0.0f64; n];
            for e in &a {
                let touches = match e {
                    Energy::Used(u) => u.carrier.to_string() == carrier_src,
                    Energy::Prod(p) => p.source.to_string() == carrier_src,
                    _ => false,
                };
                if touches {
                    for (i, v) in e.values().iter().enumerate().take(n) {
                        t[i] += 0.005 + 8.0 * EPS * (*v as f64).abs();
                    }
                }
            }
            t
        };
        let mut j = 0;
        for ea in &a {
            // skip residual completions on the read-back side
            while j < b.len() && !(tags_of(b[j]) == tags_of(ea) && b[j].comment() == ea.comment()) {
                if !residual(b[j], &resid_tol) {
                    return Some(Violation::new(
                        "roundtrip_component",
                        "added-or-changed",
                        format!("after write-out/read-back system {} has component `{}` where the original has `{}`", id, b[j], ea),
                    ));
                }
                j += 1;
            }
            if j >= b.len() {
                // an original residual-sized automatic component may print as 0.00 and be regenerated or not
                if residual(ea, &resid_tol) {
                    continue;
                }
                return Some(Violation::new("roundtrip_component", "lost", format!("component `{}` of system {} is lost after write-out/read-back", ea, id)));
            }
            let eb = b[j];
            j += 1;
            if ea.values().len() != eb.values().len() {
                return Some(Violation::new("roundtrip_component", "length", format!("`{}` comes back with {} values", ea, eb.values().len())));
            }
            for (t, (x, y)) in ea.values().iter().zip(eb.values().iter()).enumerate() {
                if !same_f32(printed2(*x), *y) {
                    return Some(Violation::new(
                        "roundtrip_component",
                        "value",
                        format!("value #{} of `{}` is {} and prints as {:.2}, but reads back as {}", t, tags_of(ea), x, x, y),
                    ));
                }
            }
        }
        while j < b.len() {
            if !residual(b[j], &resid_tol) {
                return Some(Violation::new(
                    "roundtrip_component",
                    "added-or-changed",
                    format!("after write-out/read-back system {} has an extra component `{}`", id, b[j]),
                ));
            }
            j += 1;
        }
        // AUX: per step sums (and per service when the outputs print exactly)
        let aux = |cs: &Components| -> (BTreeMap<String, Vec<f64>>, usize) {
            let mut m: BTreeMap<String, Vec<f64>> = BTreeMap::new();
            let mut lines = 0;
            for e in &cs.data {
                if let Energy::Aux(x) = e {
                    if x.id == id {
                        lines += 1;
                        let v = m.entry(x.service.to_string()).or_insert_with(|| vec![0.0; n]);
                        for (t, val) in x.values.iter().enumerate().take(n) {
                            v[t] += *val as f64;
                        }
                    }
                }
            }
            (m, lines)
        };
        let ((a1, l1), (a2, _)) = (aux(c), aux(c2));
        for t in 0..n {
            let s1: f64 = a1.values().map(|v| v[t]).sum();
            let s2: f64 = a2.values().map(|v| v[t]).sum();
            let tol = 0.005 * l1 as f64 + 32.0 * EPS * s1.abs() + 1e-9;
            if (s1 - s2).abs() > tol {
                return Some(Violation::new(
                    "roundtrip_component",
                    "aux-total",
                    format!("auxiliary energy of system {} at step {}: {} before, {} after write-out/read-back", id, t, s1, s2),
                ));
            }
            if exact_outputs {
                let services: std::collections::BTreeSet<&String> = a1.keys().chain(a2.keys()).collect();
                for s in services {
                    let (x, y) = (a1.get(s).map(|v| v[t]).unwrap_or(0.0), a2.get(s).map(|v| v[t]).unwrap_or(0.0));
                    if (x - y).abs() > tol {
                        return Some(Violation::new(
                            "roundtrip_component",
                            "aux-service",
                            format!("auxiliary energy of system {} for {} at step {}: {} before, {} after write-out/read-back", id, s, t, x, y),
                        ));
                    }
                }
            }
        }
    }
    // demands
    for (name, x, y) in [("ACS", &c.needs.ACS, &c2.needs.ACS), ("CAL", &c.needs.CAL, &c2.needs.CAL), ("REF", &c.needs.REF, &c2.needs.REF)] {
        match (x, y) {
            (None, None) => {}
            (Some(a), Some(b)) => {
                if a.len() != b.len() {
                    return Some(Violation::new("roundtrip_demand", name, format!("demand {} has {} values, {} after read-back", name, a.len(), b.len())));
                }
                for (t, (p, q)) in a.iter().zip(b.iter()).enumerate() {
                    if !same_f32(printed2(*p), *q) {
                        return Some(Violation::new(
                            "roundtrip_demand",
                            name,
                            format!("demand {} at step {} is {} (prints {:.2}) but reads back as {}", name, t, p, p, q),
                        ));
                    }
                }
            }
            _ => {
                return Some(Violation::new(
                    "roundtrip_demand",
                    name,
                    format!("building demand {} is {} before and {} after write-out/read-back", name, if x.is_some() { "declared" } else { "absent" }, if y.is_some() { "declared" } else { "absent" }),
                ))
            }
        }
    }
    None
}

fn residual(e: &Energy, resid_tol: &dyn Fn(&str) -> Vec<f64>) -> bool {
    match e {
        Energy::Prod(p) if matches!(p.source.to_string().as_str(), "EAMBIENTE" | "TERMOSOLAR") => {
            let tol = resid_tol(&p.source.to_string());
            p.values.iter().enumerate().all(|(t, v)| (*v as f64).abs() <= tol.get(t).copied().unwrap_or(0.0))
        }
        _ => false,
    }
}

fn check_factors_roundtrip(f: &Factors, f2: &Factors) -> Option<Violation> {
    let mut m1: Vec<(String, String)> = f.wmeta.iter().map(|m| (m.key.clone(), m.value.clone())).collect();
    let mut m2: Vec<(String, String)> = f2.wmeta.iter().map(|m| (m.key.clone(), m.value.clone())).collect();
    m1.sort_by(|a, b| a.0.cmp(&b.0));
    m2.sort_by(|a, b| a.0.cmp(&b.0));
    if m1 != m2 {
        return Some(Violation::new("roundtrip_metadata", "factors", format!("factor metadata differ after write-out/read-back: {:?} vs {:?}", m1, m2)));
    }
    if f.wdata.len() != f2.wdata.len() {
        return Some(Violation::new("roundtrip_factor", "count", format!("{} factors written, {} read back", f.wdata.len(), f2.wdata.len())));
    }
    for (a, b) in f.wdata.iter().zip(f2.wdata.iter()) {
        if a.carrier != b.carrier || a.source != b.source || a.dest != b.dest || a.step != b.step || a.comment != b.comment {
            return Some(Violation::new("roundtrip_factor", "tags", format!("factor `{}` reads back as `{}`", a, b)));
        }
        for (x, y) in [(a.ren, b.ren), (a.nren, b.nren), (a.co2, b.co2)] {
            if !same_f32(printed3(x), y) {
                return Some(Violation::new("roundtrip_factor", "value", format!("factor `{}`: {} prints as {:.3} but reads back as {}", a, x, x, y)));
            }
        }
    }
    None
}

enum Outcome {
    Ok(u64, u64, f64),
    NoResult(String),
    Panic(String, String),
    Bad(Violation),
}

fn roundtrip_and_check(text: &str, cfg: &EvalCfg, b: &Building) -> Outcome {
    let c = match sut::parse_components(text) {
        Ok(Ok(c)) => c,
        Ok(Err(e)) => return Outcome::NoResult(format!("parse:{:?}", e.kind)),
        Err(p) => return Outcome::Panic(p.site, p.message),
    };
    let fset = match sut::make_factors(cfg) {
        Ok(Ok(f)) => f,
        Ok(Err(e)) => return Outcome::NoResult(format!("factors:{:?}", e.kind)),
        Err(p) => return Outcome::Panic(p.site, p.message),
    };
    let fset = if cfg.strip && !c.data.is_empty() {
        match sut::strip(fset, &c) {
            Ok(f) => f,
            Err(p) => return Outcome::Panic(p.site, p.message),
        }
    } else {
        fset
    };
    // write out
    let (ctext, ftext) = match guard(|| (c.to_string(), fset.to_string())) {
        Ok(x) => x,
        Err(p) => return Outcome::Panic(p.site, p.message),
    };
    // read back
    let exact_outputs = c.data.iter().filter(|e| e.is_out()).all(|e| e.values().iter().all(|v| same_f32(printed2(*v), *v)));
    let c2 = match sut::parse_components(&ctext) {
        Ok(Ok(c2)) => c2,
        // the outputs that weight an AUX split do not print exactly (0.005 kWh is written 0.00): rounding them is
        // not a perturbation "up to the printed precision" of the split (same rule as for the result comparison) —
        // a system whose whole output rounds to zero becomes one whose auxiliaries cannot be attributed
        Ok(Err(e)) if !exact_outputs && c.data.iter().any(|x| x.is_aux()) && e.kind == sut::ErrKind::WrongInput => {
            return Outcome::NoResult("reread:aux-weights-rounded-away".into())
        }
        Ok(Err(e)) => {
            return Outcome::Bad(Violation::new("roundtrip_unreadable", "components", format!("the written components cannot be read back: {} — written text: {:?}", e.msg, truncate(&ctext, 600))))
        }
        Err(p) => return Outcome::Panic(p.site, p.message),
    };
    let f2 = match guard(|| ftext.parse::<Factors>()) {
        Ok(Ok(f)) => f,
        Ok(Err(e)) => return Outcome::Bad(Violation::new("roundtrip_unreadable", "factors", format!("the written factors cannot be read back: {} — written text: {:?}", e, truncate(&ftext, 600)))),
        Err(p) => return Outcome::Panic(p.site, p.message),
    };
    if let Some(v) = check_components_roundtrip(&c, &c2, exact_outputs) {
        return Outcome::Bad(v);
    }
    if let Some(v) = check_factors_roundtrip(&fset, &f2) {
        return Outcome::Bad(v);
    }
    // as the CLI would read the saved factors
    let cfg2 = EvalCfg { factors: FactorSpec::File(ftext.clone()), red1: None, red2: None, strip: false, ..cfg.clone() };
    let f3 = match sut::make_factors(&cfg2) {
        Ok(Ok(f)) => f,
        Ok(Err(e)) => return Outcome::Bad(Violation::new("roundtrip_unreadable", "factors", format!("the written factors are rejected when prepared again: {}", e.msg))),
        Err(p) => return Outcome::Panic(p.site, p.message),
    };
    // evaluation on both sides
    let ep1 = match sut::evaluate_parsed(&c, &fset, cfg) {
        Ok(Ok(ep)) => ep,
        Ok(Err(e)) => return Outcome::NoResult(format!("eval:{:?}", e.kind)),
        Err(p) => return Outcome::Panic(p.site, p.message),
    };
    let ep2 = match sut::evaluate_parsed(&c2, &f3, cfg) {
        Ok(Ok(ep)) => ep,
        Ok(Err(e)) => {
            return Outcome::Bad(Violation::new(
                "roundtrip_result",
                "error",
                format!("the original evaluates but the written-out/read-back building fails: {}", e.msg),
            ))
        }
        Err(p) => return Outcome::Panic(p.site, p.message),
    };
    let (imprecise, imprecise_lines) = imprecise_counts(&c);
    if cogen_imprecise(&c) || (!exact_outputs && c.data.iter().any(|e| e.is_aux())) {
        // (same for output energies that lose precision: they are the weights of the AUX split)
        // the cogeneration factor divides by the cogenerated electricity: rounding that value is not a
        // perturbation "up to the printed precision" of the result; component-level checks above still applied
        return Outcome::Ok(sut::order_signature(&ep1), sut::order_signature(&ep2), -1.0);
    }
    let bad_factors = fset.wdata.iter().filter(|w| !(same_f32(printed3(w.ren), w.ren) && same_f32(printed3(w.nren), w.nren) && same_f32(printed3(w.co2), w.co2))).count() as f64;
    let sc = Scale::of(b, cfg.area as f64);
    // SLACK_SAFETY: the propagation of the printed-precision loss to the results is a first-order estimate with
    // estimated amplification terms; value-level fidelity is decided exactly by the component-level checks above,
    // the result comparison is there for structural damage (lost or altered lines, tags, metadata), which is large
    let slack_abs = SLACK_SAFETY * 0.005 * imprecise + 0.0005 * sc.e_an * bad_factors;
    let slack_step = SLACK_SAFETY * 0.005 * imprecise_lines + 0.0005 * sc.e_an * bad_factors;
    let rep = compare(&sut::flatten(&ep1), &sut::flatten(&ep2), &sc, slack_abs, slack_step);
    if !rep.ok() {
        return Outcome::Bad(Violation::new(
            "roundtrip_result",
            rep.mismatches[0].split(':').next().unwrap_or("").split('[').next().unwrap_or("").to_string(),
            format!(
                "results differ beyond the printed precision after write-out/read-back ({} imprecise values, slack {} kWh): {}",
                imprecise,
                slack_abs,
                rep.mismatches[..rep.mismatches.len().min(3)].join(" | ")
            ),
        ));
    }
    Outcome::Ok(sut::order_signature(&ep1), sut::order_signature(&ep2), imprecise)
}

// ---------------------------------------------------------------------------------------------
// Process world: two incarnations over one disk

fn process_world(ctx: &Ctx, scn: &Scn, pp: &ProcPart, ex: &mut Exec, fp: &mut Fnv) -> Option<Violation> {
    let mut image = DiskImage::default().with_file("in.csv", Blob::Utf8(scn.text.clone()));
    let mut argv1 = vec!["-c".to_string(), "in.csv".to_string()];
    match &scn.cfg.factors {
        FactorSpec::Loc(l) => {
            argv1.push("-l".into());
            argv1.push(l.clone());
            for (flag, v) in [("--red1", scn.cfg.red1), ("--red2", scn.cfg.red2)] {
                if let Some(x) = v {
                    argv1.push(flag.into());
                    for y in x {
                        argv1.push(format!("{}", y));
                    }
                }
            }
        }
        FactorSpec::File(t) => {
            image = image.with_file("f.csv", Blob::Utf8(t.clone()));
            argv1.push("-f".into());
            argv1.push("f.csv".into());
        }
    }
    if pp.pass_area {
        argv1.push("-a".into());
        argv1.push(pp.area.clone());
    }
    if pp.pass_kexp {
        argv1.push("-k".into());
        argv1.push(pp.k_exp.clone());
    }
    let mut common: Vec<String> = Vec::new();
    if scn.cfg.load_matching {
        common.push("--load_matching".into());
    }
    if !scn.cfg.strip {
        common.push("-F".into());
    }
    argv1.extend(common.iter().cloned());
    let has_ffile = matches!(scn.cfg.factors, FactorSpec::File(_));
    let (oc, of) = if pp.in_place { ("in.csv", if has_ffile { "f.csv" } else { "of.csv" }) } else { ("oc.csv", "of.csv") };
    argv1.extend(["--oc", oc, "--of", of, "--json", "r1.json"].iter().map(|s| s.to_string()));
    let mut argv2: Vec<String> = vec!["-c", oc, "-f", of, "--json", "r2.json"].iter().map(|s| s.to_string()).collect();
    argv2.extend(common.iter().cloned());
    if pp.second_generation {
        argv2.extend(["--oc", "oc2.csv", "--of", "of2.csv"].iter().map(|s| s.to_string()));
    }
    for name in &pp.stale {
        image = image.with_file(name, Blob::Utf8("STALE-BYTES-OF-AN-EARLIER-RUN ".repeat(3000)));
    }
    let disk = worldp::Disk::create(ctx, &image);
    let mut seq = 0;
    let mut run = |inc: &Incarnation, ex: &mut Exec, fp: &mut Fnv| -> worldp::Outcome {
        let o = worldp::run_incarnation(ctx, &disk, inc, seq);
        seq += 1;
        worldp::outcome_digest(fp, &o);
        ex.count("process_incarnations", 1);
        ex.count("tracked_syscalls", o.trace.len() as u64);
        for f in o.faults_fired() {
            ex.count(&format!("fault_fired:{}", f), 1);
        }
        o
    };
    if pp.stale_is_longer_version && !pp.in_place {
        // the earlier, identical run (same entropy seed, so byte-identical outputs), then a tail appended
        let o0 = run(&Incarnation { argv: argv1.clone(), entropy: pp.entropy1, plan: Vec::new(), debug_build: false }, ex, fp);
        if o0.exit == Some(0) {
            for name in [oc, of, "r1.json"] {
                if let Some(mut bytes) = disk.read(name) {
                    bytes.extend_from_slice(b"\nSTALE-BYTES-OF-AN-EARLIER-RUN: tail of a longer earlier output\n");
                    disk.write(name, &bytes);
                }
            }
            ex.count("stale_files_that_begin_with_the_new_content", 1);
        }
    }
    if let Some(k) = pp.crash_first {
        let inc = Incarnation { argv: argv1.clone(), entropy: pp.crash_entropy, plan: vec![PlanEntry { idx: k, kind: PlanKind::Crash }], debug_build: false };
        let o = run(&inc, ex, fp);
        if o.crashed_by_plan() {
            ex.count("crashes", 1);
        }
    }
    let o1 = run(&Incarnation { argv: argv1.clone(), entropy: pp.entropy1, plan: pp.plan1.clone(), debug_build: false }, ex, fp);
    let what1 = format!("cteepbd {}", argv1.join(" "));
    if let Some(v) = crate::props::c16::judge_outcome(&o1, &what1) {
        return Some(v);
    }
    if o1.exit != Some(0) {
        ex.count("process_runs_ending_in_typed_error", 1);
        return None;
    }
    if !disk.exists("r1.json") || !o1.trace.iter().any(|t| t.path == "r1.json") {
        // nothing was evaluated (e.g. a components file without components): the run wrote no result
        ex.count("process_runs_without_result", 1);
        return None;
    }
    for name in [oc, of] {
        match disk.read(name) {
            None => return Some(Violation::new("saved_file_damaged", name, format!("{}: {} was not written", what1, name))),
            Some(bytes) => {
                if worldp::find_sub(&bytes, b"STALE-BYTES").is_some() {
                    return Some(Violation::new(
                        "saved_file_damaged",
                        name,
                        format!("{}: {} still contains bytes of the file that was at that path before (faults delivered: {:?})", what1, name, o1.faults_fired()),
                    ));
                }
            }
        }
    }
    // the saved factor file states the factor set the first run used (recorded in its JSON document): per key
    // (carrier, source, use, step) the same sequence of definitions, values at 3 decimals
    if let (Some(ftext), Some(r1)) = (disk.read(of).and_then(|b| String::from_utf8(b).ok()), disk.read("r1.json").and_then(|b| serde_json::from_slice::<Value>(&b).ok())) {
        let used: Option<Factors> = r1.get("wfactors").cloned().and_then(|v| serde_json::from_value(v).ok());
        let saved: Option<Factors> = guard(|| ftext.parse::<Factors>().ok()).ok().flatten();
        if let (Some(used), Some(saved)) = (used, saved) {
            let group = |f: &Factors| {
                let mut m: BTreeMap<String, Vec<[f32; 3]>> = BTreeMap::new();
                for w in &f.wdata {
                    m.entry(format!("{}, {}, {}, {}", w.carrier, w.source, w.dest, w.step)).or_default().push([w.ren, w.nren, w.co2]);
                }
                m
            };
            let (gu, gs) = (group(&used), group(&saved));
            for (k, vu) in &gu {
                // the evaluation adds factors of its own (cogenerated electricity) after the file was saved: only keys
                // that the saved file has are compared (a factor missing from it shows in the re-evaluation)
                let vs = match gs.get(k) {
                    Some(v) => v.clone(),
                    None => continue,
                };
                // the definition in force is the first one; whether shadowed repetitions are kept is not prescribed
                let same = match (vu.first(), vs.first()) {
                    (Some(a), Some(b)) => (0..3).all(|i| same_f32(printed3(a[i]), b[i]) || (a[i] - b[i]).abs() <= 0.00051),
                    _ => false,
                };
                if !same {
                    return Some(Violation::new(
                        "saved_factors_differ",
                        k.clone(),
                        format!("{}: the run used the definitions {:?} for `{}` (the first one is in force) but {} states {:?}", what1, vu, k, of, vs),
                    ));
                }
            }
            ex.count("saved_factor_files_compared_with_the_set_used", 1);
        }
    }
    let o2 = run(&Incarnation { argv: argv2.clone(), entropy: pp.entropy2, plan: pp.plan2.clone(), debug_build: false }, ex, fp);
    let what2 = format!("cteepbd {} (reading what `{}` saved)", argv2.join(" "), what1);
    if let Some(v) = crate::props::c16::judge_outcome(&o2, &what2) {
        return Some(v);
    }
    if o2.exit != Some(0) {
        // outputs that weight an AUX split and do not print exactly (0.004 kWh is saved as 0.00): the saved system may be
        // one whose auxiliaries cannot be attributed any more - outside the claim, as in the library world
        let c1: Option<Components> = disk.read("r1.json").and_then(|b| serde_json::from_slice::<Value>(&b).ok()).and_then(|r| r.get("components").cloned()).and_then(|v| serde_json::from_value(v).ok());
        let lossy_weights = c1
            .as_ref()
            .map(|c| c.data.iter().any(|e| e.is_aux()) && !c.data.iter().filter(|e| e.is_out()).all(|e| e.values().iter().all(|v| same_f32(printed2(*v), *v))))
            .unwrap_or(false);
        if lossy_weights && o2.exit == Some(65) {
            ex.count("result_comparisons_skipped(cogeneration or AUX-weight values lose precision)", 1);
            return None;
        }
        return Some(Violation::new(
            "roundtrip_result",
            "second-run-fails",
            format!("{}: exit {:?}: {} — saved components: {:?}", what2, o2.exit, truncate(o2.stderr_text().trim(), 300), truncate(&String::from_utf8_lossy(&disk.read(oc).unwrap_or_default()), 500)),
        ));
    }
    let mut what2 = what2;
    let mut final_json = "r2.json";
    if pp.second_generation {
        let mut argv3: Vec<String> = vec!["-c", "oc2.csv", "-f", "of2.csv", "--json", "r3.json"].iter().map(|s| s.to_string()).collect();
        argv3.extend(common.iter().cloned());
        let o3 = run(&Incarnation { argv: argv3.clone(), entropy: pp.crash_entropy ^ 0x33, plan: Vec::new(), debug_build: false }, ex, fp);
        what2 = format!("cteepbd {} (third incarnation, reading what the second saved) after `{}`", argv3.join(" "), what2);
        if let Some(v) = crate::props::c16::judge_outcome(&o3, &what2) {
            return Some(v);
        }
        if o3.exit != Some(0) {
            return Some(Violation::new("roundtrip_result", "third-run-fails", format!("{}: exit {:?}: {}", what2, o3.exit, truncate(o3.stderr_text().trim(), 300))));
        }
        final_json = "r3.json";
        ex.count("second_generation_roundtrips", 1);
    }
    let r1: Option<Value> = disk.read("r1.json").and_then(|b| serde_json::from_slice(&b).ok());
    let r2: Option<Value> = disk.read(final_json).and_then(|b| serde_json::from_slice(&b).ok());
    let (r1, r2) = match (r1, r2) {
        (Some(a), Some(b)) => (a, b),
        _ => return Some(Violation::new("roundtrip_result", "json-missing", format!("{}: result documents missing or invalid", what2))),
    };
    // the factor sets of the two evaluations: a factor that both have must carry the same comment (tags and
    // comments are data, C18) - whatever the re-evaluation does to the values is judged below through the results
    {
        let fs = |r: &Value| -> Option<Factors> { r.get("wfactors").cloned().and_then(|v| serde_json::from_value(v).ok()) };
        if let (Some(f1), Some(f2)) = (fs(&r1), fs(&r2)) {
            let first = |f: &Factors| {
                let mut m: BTreeMap<String, String> = BTreeMap::new();
                for w in &f.wdata {
                    m.entry(format!("{}, {}, {}, {}", w.carrier, w.source, w.dest, w.step)).or_insert_with(|| w.comment.trim().to_string());
                }
                m
            };
            let (m1, m2) = (first(&f1), first(&f2));
            for (k, c1) in &m1 {
                if let Some(c2) = m2.get(k) {
                    if c1 != c2 {
                        return Some(Violation::new(
                            "roundtrip_factor",
                            "comment",
                            format!("{}: the factor `{}` carries the comment {:?} in the original evaluation but {:?} when the saved files are evaluated", what2, k, c1, c2),
                        ));
                    }
                }
            }
        }
    }
    // precision slack from the first result's own components
    let c1: Option<Components> = r1.get("components").and_then(|v| serde_json::from_value(v.clone()).ok());
    let (imprecise, _) = c1.as_ref().map(imprecise_counts).unwrap_or((0.0, 0.0));
    let inexact_out_with_aux = c1
        .as_ref()
        .map(|c| c.data.iter().any(|e| e.is_aux()) && !c.data.iter().filter(|e| e.is_out()).all(|e| e.values().iter().all(|v| same_f32(printed2(*v), *v))))
        .unwrap_or(false);
    if c1.as_ref().map(cogen_imprecise).unwrap_or(false) || inexact_out_with_aux {
        ex.count("result_comparisons_skipped(cogeneration or AUX-weight values lose precision)", 1);
        return None;
    }
    let area: f64 = r1.get("arearef").and_then(|v| v.as_f64()).unwrap_or(1.0);
    let sc = Scale::of(&scn.b, area);
    let slack = SLACK_SAFETY * 0.005 * imprecise * if pp.second_generation { 2.0 } else { 1.0 };
    if let Some(m) = json_mismatch_with_slack(&r1, &r2, &sc, slack) {
        return Some(Violation::new(
            "roundtrip_result",
            m.split(':').next().unwrap_or("").to_string(),
            format!("{}: results differ beyond the printed precision ({} imprecise values): {}", what2, imprecise, m),
        ));
    }
    for k in ["k_exp", "arearef"] {
        let (x, y) = (r1.get(k).and_then(|v| v.as_f64()), r2.get(k).and_then(|v| v.as_f64()));
        if x != y {
            return Some(Violation::new("roundtrip_result", k, format!("{}: {} is {:?} in the original run and {:?} when evaluating the saved files", what2, k, x, y)));
        }
    }
    // DHW indicator: presence must agree (value compared in the library world with its threshold guards)
    let has = |r: &Value, k: &str| r.pointer(&format!("/misc/{}", k)).is_some();
    if has(&r1, "fraccion_renovable_demanda_acs_nrb") != has(&r2, "fraccion_renovable_demanda_acs_nrb") {
        let near = c1.is_some() && dhw_fragile(&r1, slack + sc.c_abs() * EPS * sc.e_an);
        if !near {
            return Some(Violation::new(
                "roundtrip_result",
                "dhw-indicator",
                format!(
                    "{}: DHW renewable fraction is {} in the original run but {} when evaluating the saved files",
                    what2,
                    r1.pointer("/misc").map(|v| v.to_string()).unwrap_or_default(),
                    r2.pointer("/misc").map(|v| v.to_string()).unwrap_or_default()
                ),
            ));
        }
    }
    None
}

fn dhw_fragile(r: &Value, margin: f64) -> bool {
    // mirrors sut::flatten's threshold margin, from the JSON document
    let acs = r.pointer("/balance/used/epus_by_cr_by_srv/ACS");
    let el = acs.and_then(|m| m.get("ELECTRICIDAD")).and_then(|v| v.as_f64());
    let env = acs.and_then(|m| m.get("EAMBIENTE")).and_then(|v| v.as_f64());
    let mut aux = 0.0;
    let mut low = 0.0;
    if let Some(data) = r.pointer("/components/data").and_then(|v| v.as_array()) {
        for c in data {
            if let Some(a) = c.get("Aux") {
                if a.get("service").and_then(|s| s.as_str()) == Some("ACS") {
                    aux += a.get("values").and_then(|v| v.as_array()).map(|v| v.iter().filter_map(|x| x.as_f64()).sum::<f64>()).unwrap_or(0.0);
                }
            }
            if let Some(u) = c.get("Used") {
                if u.get("carrier").and_then(|s| s.as_str()) == Some("EAMBIENTE") && u.get("comment").and_then(|s| s.as_str()).unwrap_or("").contains("CTEEPBD_EXCLUYE_SCOP_ACS") {
                    low += u.get("values").and_then(|v| v.as_array()).map(|v| v.iter().filter_map(|x| x.as_f64()).sum::<f64>()).unwrap_or(0.0);
                }
            }
        }
    }
    let mut fragile = false;
    // "annual DHW demand == 0" is a third threshold test: a demand that the printed precision can round to zero
    if margin > 0.0 {
        if let Some(d) = r.pointer("/balance/needs/ACS").and_then(|v| v.as_f64()) {
            fragile |= d.abs() <= margin + 1e-9;
        }
    }
    if let Some(e) = el {
        fragile |= ((e - aux).abs() - 0.01).abs() <= margin + 1e-9;
    }
    if let Some(e) = env {
        fragile |= ((e - low).abs() - 0.01).abs() <= margin + 1e-9;
    }
    fragile
}

fn json_mismatch_with_slack(a: &Value, b: &Value, sc: &Scale, slack: f64) -> Option<String> {
    let f = worldp::json_max_factor(a).max(worldp::json_max_factor(b));
    let area = if sc.area > 0.0 { sc.area } else { 1.0 };
    let tol = sc.c_abs() * EPS * sc.e_an.max(sc.n_an) * f + 0.0011 + 4.0 * slack * f; // 4: see cmp.rs (Cls::W)
    // by-service weighted energies: amplification |W_carrier| / epus_carrier (see cmp::compare)
    let mut amp = 0.0f64;
    if slack > 0.0 {
        if let Some(crs) = a.get("balance_cr").and_then(|v| v.as_object()) {
            for (cname, ca) in crs {
                let epus = ca.pointer("/used/epus_an").and_then(|v| v.as_f64()).unwrap_or(0.0).abs();
                if epus <= 0.0 {
                    continue;
                }
                let mut w = 0.0f64;
                for doc in [a, b] {
                    for step in ["a", "b"] {
                        for comp in ["ren", "nren", "co2"] {
                            if let Some(v) = doc.pointer(&format!("/balance_cr/{}/we/{}/{}", cname, step, comp)).and_then(|v| v.as_f64()) {
                                w = w.max(v.abs());
                            }
                        }
                    }
                }
                amp += w / epus;
            }
        }
    }
    let by_srv_extra = slack * amp;
    fn walk(path: &str, a: &Value, b: &Value, tol: f64, srv_extra: f64, out: &mut Option<String>) {
        if out.is_some() {
            return;
        }
        match (a, b) {
            (Value::Object(x), Value::Object(y)) => {
                let keys: std::collections::BTreeSet<&String> = x.keys().chain(y.keys()).collect();
                for k in keys {
                    let zero = Value::from(0.0);
                    let (va, vb) = (x.get(k).unwrap_or(&zero), y.get(k).unwrap_or(&zero));
                    walk(&format!("{}.{}", path, k), va, vb, tol, srv_extra, out);
                }
            }
            (Value::Number(x), Value::Number(y)) => {
                let (x, y) = (x.as_f64().unwrap_or(f64::NAN), y.as_f64().unwrap_or(f64::NAN));
                let tol = if path.contains("_by_srv") && path.contains(".we.") { tol + srv_extra } else { tol };
                if !((x - y).abs() <= tol) {
                    *out = Some(format!("{}: {} vs {} (tol {:e})", path, x, y, tol));
                }
            }
            (Value::Number(x), Value::Object(_)) | (Value::Object(_), Value::Number(x)) => {
                // a map entry present on one side only counts as zero entries on the other
                let _ = x;
            }
            (x, y) => {
                if x != y {
                    *out = Some(format!("{}: {} vs {}", path, x, y));
                }
            }
        }
    }
    let mut out = None;
    if let (Some(x), Some(y)) = (a.get("balance"), b.get("balance")) {
        walk("balance", x, y, tol, by_srv_extra, &mut out);
    }
    if let (Some(x), Some(y)) = (a.get("balance_m2"), b.get("balance_m2")) {
        walk("balance_m2", x, y, tol / area + 0.0011, by_srv_extra / area, &mut out);
    }
    let den = |j: &Value| (j.pointer("/balance/we/b/ren").and_then(|v| v.as_f64()).unwrap_or(0.0) + j.pointer("/balance/we/b/nren").and_then(|v| v.as_f64()).unwrap_or(0.0)).abs();
    let d = den(a).min(den(b));
    if out.is_none() && d > crate::cmp::RATIO_MIN_DEN * sc.e_an * f {
        for k in ["rer", "rer_nrb", "rer_onst"] {
            if let (Some(x), Some(y)) = (a.get(k).and_then(|v| v.as_f64()), b.get(k).and_then(|v| v.as_f64())) {
                let rtol = crate::cmp::ratio_tol(sc.e_an * f, d, x.abs().max(y.abs()), 0.0011 + 4.0 * slack * f);
                if !((x - y).abs() <= rtol) {
                    out = Some(format!("{}: {} vs {} (tol {:e})", k, x, y, rtol));
                }
            }
        }
    }
    out
}

impl Property for C18 {
    type Scn = Scn;
    fn id(&self) -> &'static str {
        "C18"
    }
    fn runs(&self, tier: Tier) -> u64 {
        match tier {
            Tier::Quick => 60_000,
            Tier::Thorough => 1_200_000,
        }
    }

    fn generate(&self, ctx: &Ctx, run_index: u64) -> Scn {
        let seed = ctx.run_seed(run_index);
        let mut w = Rng::for_stream(seed, stream::WORKLOAD);
        let focus = match w.below(4) {
            0 => Focus::Aux,
            1 => Focus::Env,
            2 => Focus::Output,
            _ => Focus::General,
        };
        let mut p = gen_profile(&mut w, focus, ctx.thorough());
        if p.steps > 24 {
            p.steps = 12;
        }
        let more_decimals = w.chance(0.15);
        p.f_more_decimals = more_decimals;
        let b = gen_building(&mut w, &p);
        let layout = gen_layout(&mut w, b.lines.len());
        let text = render(&b, &layout);
        let mut o = Rng::for_stream(seed, stream::OPTIONS);
        let mut cfg = gen_evalcfg(&mut o, &b, true);
        if let FactorSpec::File(_) = cfg.factors {
            cfg.factors = FactorSpec::File(gen_factor_file(&mut o, &b.carriers(), true, true));
        }
        // what the CLI can store in metadata: k_exp with one decimal, area with two
        let k_tok = format!("{:.1}", (o.below(11) as f32) / 10.0);
        let a_tok = o.pick(&["1", "2.5", "100", "1234.56", "0.5", "50000"]).to_string();
        cfg.k_exp = k_tok.parse().unwrap();
        cfg.area = a_tok.parse().unwrap();
        let mut s = Rng::for_stream(seed, stream::SCHEDULE);
        let k = if ctx.thorough() { 8 } else { 4 };
        let sched: Vec<u64> = (0..k).map(|_| s.next_u64()).collect();
        let proc_part = if ctx.sut_release.is_some() && run_index % 8 == 0 {
            let mut y = Rng::for_stream(seed, stream::SYSCALLS);
            let mut d = Rng::for_stream(seed, stream::DISK);
            let mut c = Rng::for_stream(seed, stream::CRASH);
            // shapes: inc1 reads 1-2 files and writes 3; inc2 reads 2 and writes 1
            let n_in1 = if matches!(cfg.factors, FactorSpec::File(_)) { 2 } else { 1 };
            let shape = |n_in: usize, n_out: usize| -> Vec<worldp::TraceLine> {
                let mut v = Vec::new();
                let mut idx = 0;
                let mut push = |call: &str, res: i64| {
                    v.push(worldp::TraceLine { idx, call: call.into(), fd: 4, path: "-".into(), req: res, res, errno: 0, fault: "-".into() });
                    idx += 1;
                };
                for _ in 0..n_in {
                    push("open", 4);
                    push("read", 600);
                    push("read", 0);
                    push("close", 0);
                }
                for _ in 0..n_out {
                    push("open", 4);
                    push("write", 2000);
                    push("close", 0);
                }
                v
            };
            let (s1, s2) = (shape(n_in1, 3), shape(2, 1));
            let plan1 = if y.chance(0.6) { worldp::benign_plan(&mut y, &s1, 0.5) } else { Vec::new() };
            let mut plan2 = if y.chance(0.6) { worldp::benign_plan(&mut y, &s2, 0.5) } else { Vec::new() };
            let mut plan1 = plan1;
            if y.chance(0.2) {
                // faults on the calls the program really makes (rehearsed on a copy of the disk)
                plan1 = vec![PlanEntry { idx: y.next_u64(), kind: PlanKind::Measured(0) }];
                plan2 = vec![PlanEntry { idx: y.next_u64(), kind: PlanKind::Measured(0) }];
            }
            let mut stale: Vec<String> = ["oc.csv", "of.csv", "r1.json", "r2.json"].iter().filter(|_| d.chance(0.35)).map(|n| n.to_string()).collect();
            for n in ["oc.csv", "of.csv", "r1.json", "in.csv", "f.csv"] {
                if d.chance(0.12) {
                    stale.push(worldp::stale_sibling(&mut d, n));
                }
            }
            let crash_first = if c.chance(0.25) { Some((n_in1 * 4) as u64 + c.below(9)) } else { None };
            Some(ProcPart {
                entropy1: s.next_u64(),
                entropy2: s.next_u64(),
                plan1,
                plan2,
                stale,
                crash_first,
                crash_entropy: s.next_u64(),
                k_exp: k_tok,
                area: a_tok,
                pass_area: o.chance(0.7),
                pass_kexp: o.chance(0.7),
                in_place: o.chance(0.15),
                second_generation: o.chance(0.2),
                stale_is_longer_version: o.chance(0.15),
            })
        } else {
            None
        };
        Scn { b, layout, text, cfg, sched, more_decimals, proc_part }
    }

    fn execute(&self, ctx: &Ctx, scn: &Scn) -> Exec {
        let mut ex = Exec::default();
        let mut fp = Fnv::new();
        let mut violation: Option<Violation> = None;
        let mut orders = std::collections::BTreeSet::new();
        let mut any_ok = false;
        for &sigma in &scn.sched {
            let (t, c, b) = (scn.text.clone(), scn.cfg.clone(), scn.b.clone());
            let out = in_thread(sigma, move || roundtrip_and_check(&t, &c, &b));
            ex.count("library_roundtrips", 1);
            match out {
                Outcome::Ok(o1, o2, imprecise) => {
                    fp.str("ok").u64(o1).u64(o2);
                    orders.insert(o1);
                    orders.insert(o2);
                    any_ok = true;
                    if imprecise > 0.0 {
                        ex.count("roundtrips_with_values_losing_precision", 1);
                    }
                    if imprecise < 0.0 {
                        ex.count("result_comparisons_skipped(cogeneration or AUX-weight values lose precision)", 1);
                    }
                }
                Outcome::NoResult(why) => {
                    fp.str("noresult").str(&why);
                    ex.count("typed_errors(no result to compare)", 1);
                }
                Outcome::Panic(site, msg) => {
                    fp.str("panic").str(&site);
                    if violation.is_none() {
                        violation = Some(Violation::new("panic", site, format!("under entropy seed {:#x}: {}", sigma, msg)));
                    }
                }
                Outcome::Bad(mut v) => {
                    fp.str("bad").str(&v.kind).str(&v.site);
                    if violation.is_none() {
                        v.message = format!("under entropy seed {:#x}: {}", sigma, v.message);
                        violation = Some(v);
                    }
                }
            }
        }
        if violation.is_none() {
            if let Some(pp) = &scn.proc_part {
                violation = process_world(ctx, scn, pp, &mut ex, &mut fp);
            }
        }
        if scn.more_decimals {
            ex.count("runs_in_more_than_two_decimals_class", 1);
        }
        let kinds = scn.b.kinds_present().len();
        let nontrivial_l = any_ok && kinds >= 3 && orders.len() >= 2;
        let nontrivial_p = scn.proc_part.as_ref().map(|p| !p.plan1.is_empty() || !p.plan2.is_empty() || !p.stale.is_empty() || p.crash_first.is_some()).unwrap_or(false);
        if nontrivial_l || nontrivial_p {
            let mut h = Fnv::new();
            h.u64(scn.b.feature_sig());
            for o in &orders {
                h.u64(*o);
            }
            if let Some(p) = &scn.proc_part {
                h.u64(p.plan1.len() as u64).u64(p.plan2.len() as u64).u64(p.stale.len() as u64).u64(p.crash_first.unwrap_or(999));
            }
            ex.nontrivial = Some(h.finish());
        }
        ex.order_sigs = orders.into_iter().collect();
        ex.fingerprint = fp.finish();
        ex.violation = violation;
        ex
    }

    fn shrink(&self, scn: &Scn) -> Vec<Scn> {
        let mut out = Vec::new();
        if scn.proc_part.is_some() {
            let mut n = scn.clone();
            n.proc_part = None;
            out.push(n);
        }
        if let Some(pp) = &scn.proc_part {
            if pp.crash_first.is_some() {
                let mut n = scn.clone();
                n.proc_part.as_mut().unwrap().crash_first = None;
                out.push(n);
            }
            for i in 0..pp.stale.len() {
                let mut n = scn.clone();
                n.proc_part.as_mut().unwrap().stale.remove(i);
                out.push(n);
            }
            for i in 0..pp.plan1.len() {
                let mut n = scn.clone();
                n.proc_part.as_mut().unwrap().plan1.remove(i);
                out.push(n);
            }
            for i in 0..pp.plan2.len() {
                let mut n = scn.clone();
                n.proc_part.as_mut().unwrap().plan2.remove(i);
                out.push(n);
            }
            if pp.in_place {
                let mut n = scn.clone();
                n.proc_part.as_mut().unwrap().in_place = false;
                out.push(n);
            }
            if pp.second_generation {
                let mut n = scn.clone();
                n.proc_part.as_mut().unwrap().second_generation = false;
                out.push(n);
            }
            if pp.stale_is_longer_version {
                let mut n = scn.clone();
                n.proc_part.as_mut().unwrap().stale_is_longer_version = false;
                out.push(n);
            }
            for (a, k) in [(false, pp.pass_kexp), (pp.pass_area, false)] {
                if (a, k) != (pp.pass_area, pp.pass_kexp) {
                    let mut n = scn.clone();
                    n.proc_part.as_mut().unwrap().pass_area = a;
                    n.proc_part.as_mut().unwrap().pass_kexp = k;
                    out.push(n);
                }
            }
        }
        if scn.sched.len() > 1 {
            for i in 0..scn.sched.len() {
                let mut n = scn.clone();
                n.sched = vec![scn.sched[i]];
                out.push(n);
            }
        }
        for nb in shrink_building(&scn.b) {
            let mut n = scn.clone();
            n.b = nb;
            n.text = render(&n.b, &n.layout);
            out.push(n);
        }
        for l in shrink_layout(&scn.layout) {
            let mut n = scn.clone();
            n.layout = l;
            n.text = render(&n.b, &n.layout);
            out.push(n);
        }
        for c in shrink_cfg(&scn.cfg) {
            // keep what the metadata can store
            if scn.proc_part.is_some() && (c.k_exp != scn.cfg.k_exp || c.area != scn.cfg.area) {
                continue;
            }
            let mut n = scn.clone();
            n.cfg = c;
            out.push(n);
        }
        out
    }

    fn sample(&self, scn: &Scn) -> Value {
        json!({
            "text": truncate(&scn.text, 1800),
            "cfg": scn.cfg,
            "schedules(entropy seeds)": scn.sched.iter().map(|s| format!("{:#x}", s)).collect::<Vec<_>>(),
            "more_than_two_decimals_class": scn.more_decimals,
            "process_world": scn.proc_part,
        })
    }

    fn rule(&self) -> String {
        "Run = one generated building (all component kinds incl. legacy lines, comments, metadata, AUX, SALIDA, DEMANDA, automatically \
         completed production; 15% in a separately counted class with more than two decimals) and a location or generated factor file, \
         under K seeded hash schedules (K=4 quick, 8 thorough): Components and prepared Factors are written with Display and read back \
         with FromStr; metadata sequences, per-id component sequences (tags, ids, comments; each value must read back as exactly the \
         f32 of its printed token), AUX totals per id and step, demands and factors (3 decimals) are compared, and energy_performance on \
         both sides must agree within 0.005 kWh per imprecise printed value + f32 noise. Every 8th run also through the real CLI: \
         incarnation 1 writes --oc/--of/--json, incarnation 2 evaluates the saved files (options come back from the saved metadata), each \
         under its own entropy seed and a fault-free or benign plan (EINTR, short reads/writes), with stale longer files at the output \
         paths and, in 25%, a crashed first attempt of incarnation 1; r2 must equal r1 up to the printed precision and the saved files \
         must hold no stale bytes. Non-trivial = (>=3 component kinds and >=2 order signatures realised between the two sides) or (a \
         process-world run with a non-empty plan, stale file or crashed predecessor); distinct = distinct (feature signature, order \
         signatures, plan/stale/crash shape)."
            .into()
    }

    fn assumptions(&self) -> Vec<String> {
        vec![
            "'up to the printed precision' = each value reads back as the f32 of its 2-decimal (factors: 3-decimal) printed token".into(),
            "re-normalizing rounded values may create or drop automatic ambient/solar production below 0.005 kWh per contributing value: ignored on both sides".into(),
            "per-service AUX shares are compared only when every SALIDA value prints exactly (otherwise only per-step totals)".into(),
            "in the process world k_exp has one decimal and the area two, because the CLI stores them as {:.1}/{:.2} metadata and C18 states a precision for energies and factors only".into(),
            "the same --load_matching / -F flags are given to both incarnations (they are not stored in the saved files)".into(),
        ]
    }

    fn extra_evidence(&self) -> Value {
        json!({
            "real_components": ["cteepbd library: Display/FromStr of Components, Factors and all line kinds, wfactors_from_str, energy_performance", "cteepbd CLI binary (release): --oc/--of writers, -c/-f readers, metadata precedence"],
            "stubbed_components": ["entropy source (getrandom)", "pass-through layer over open/read/write/close of tracked files (EINTR, short transfers, crash)"],
        })
    }
}
