//! Structured description of a simulated building (DESIGN §3.3).
//!
//! The generator keeps this description of what it *declared*; oracles take their ground truth from
//! it and never from the SUT's parser. Replay files store it next to the rendered text.

use serde::{Deserialize, Serialize};

pub const EPB_SERVICES: [&str; 5] = ["ACS", "CAL", "REF", "VEN", "ILU"];
pub const ALL_CARRIERS: [&str; 12] = [
    "EAMBIENTE",
    "BIOCARBURANTE",
    "BIOMASA",
    "BIOMASADENSIFICADA",
    "CARBON",
    "ELECTRICIDAD",
    "GASNATURAL",
    "GASOLEO",
    "GLP",
    "RED1",
    "RED2",
    "TERMOSOLAR",
];
pub const FUEL_CARRIERS: [&str; 9] = [
    "BIOCARBURANTE",
    "BIOMASA",
    "BIOMASADENSIFICADA",
    "CARBON",
    "GASNATURAL",
    "GASOLEO",
    "GLP",
    "RED1",
    "RED2",
];
pub const PROD_SOURCES: [&str; 4] = ["EL_INSITU", "EL_COGEN", "TERMOSOLAR", "EAMBIENTE"];
pub const LOCS: [&str; 4] = ["PENINSULA", "BALEARES", "CANARIAS", "CEUTAMELILLA"];

#[derive(Clone, Debug, Serialize, Deserialize, PartialEq, Eq, PartialOrd, Ord)]
pub enum Kind {
    /// `[id,] CONSUMO, service, carrier, values`
    Used { service: String, carrier: String },
    /// `[id,] PRODUCCION, source, values`
    Prod { source: String },
    /// `[id,] AUX, values`
    Aux,
    /// `id, SALIDA, service, values`
    Out { service: String },
    /// `DEMANDA, service, values`
    Need { service: String },
}

impl Kind {
    pub fn code(&self) -> &'static str {
        match self {
            Kind::Used { .. } => "CONSUMO",
            Kind::Prod { .. } => "PRODUCCION",
            Kind::Aux => "AUX",
            Kind::Out { .. } => "SALIDA",
            Kind::Need { .. } => "DEMANDA",
        }
    }
    pub fn is_need(&self) -> bool {
        matches!(self, Kind::Need { .. })
    }
    /// Carrier this line contributes to, if any.
    pub fn carrier(&self) -> Option<&str> {
        match self {
            Kind::Used { carrier, .. } => Some(carrier),
            Kind::Prod { source } => Some(match source.as_str() {
                "EL_INSITU" | "EL_COGEN" => "ELECTRICIDAD",
                "TERMOSOLAR" => "TERMOSOLAR",
                _ => "EAMBIENTE",
            }),
            Kind::Aux => Some("ELECTRICIDAD"),
            _ => None,
        }
    }
}

/// One declared line. `explicit_id == false` means the legacy spelling without id (id must be 0).
#[derive(Clone, Debug, Serialize, Deserialize, PartialEq)]
pub struct Line {
    pub id: i32,
    pub explicit_id: bool,
    pub kind: Kind,
    /// Printed value tokens, one per time step.
    pub values: Vec<String>,
    /// Comment without the leading `#` (already trimmed); empty = none.
    pub comment: String,
}

impl Line {
    pub fn f32s(&self) -> Vec<f32> {
        self.values.iter().map(|t| tok_f32(t)).collect()
    }
    pub fn f64s(&self) -> Vec<f64> {
        self.values.iter().map(|t| tok_f32(t) as f64).collect()
    }
    /// Canonical text of the line (single space after commas).
    pub fn render(&self, sep: &str) -> String {
        let mut fields: Vec<String> = Vec::new();
        match &self.kind {
            Kind::Need { service } => {
                fields.push("DEMANDA".into());
                fields.push(service.clone());
            }
            k => {
                if self.explicit_id || !matches!(k, Kind::Used { .. } | Kind::Prod { .. } | Kind::Aux) {
                    fields.push(self.id.to_string());
                }
                fields.push(k.code().into());
                match k {
                    Kind::Used { service, carrier } => {
                        fields.push(service.clone());
                        fields.push(carrier.clone());
                    }
                    Kind::Prod { source } => fields.push(source.clone()),
                    Kind::Out { service } => fields.push(service.clone()),
                    _ => {}
                }
            }
        }
        fields.extend(self.values.iter().cloned());
        let mut s = fields.join(sep);
        if !self.comment.is_empty() {
            s.push_str(" # ");
            s.push_str(&self.comment);
        }
        s
    }
}

/// f32 value of a printed token (std's parser: the trusted base, same as any reader of the file).
pub fn tok_f32(t: &str) -> f32 {
    t.trim().parse::<f32>().unwrap_or(f32::NAN)
}

/// Number of decimals of a printed token (scientific notation counts as "many").
pub fn tok_decimals(t: &str) -> usize {
    let t = t.trim();
    if t.contains(['e', 'E']) {
        return 99;
    }
    match t.find('.') {
        Some(p) => t.len() - p - 1,
        None => 0,
    }
}

#[derive(Clone, Debug, Default, Serialize, Deserialize, PartialEq)]
pub struct Building {
    /// `#META key: value` lines in file order.
    pub meta: Vec<(String, String)>,
    /// Declared lines in file order.
    pub lines: Vec<Line>,
}

impl Building {
    pub fn n_steps(&self) -> usize {
        self.lines.iter().find(|l| !l.kind.is_need()).map(|l| l.values.len()).unwrap_or(0)
    }
    pub fn ids(&self) -> Vec<i32> {
        let mut v: Vec<i32> = self.lines.iter().filter(|l| !l.kind.is_need()).map(|l| l.id).collect();
        v.sort_unstable();
        v.dedup();
        v
    }
    pub fn carriers(&self) -> Vec<String> {
        let mut v: Vec<String> = self
            .lines
            .iter()
            .filter(|l| matches!(l.kind, Kind::Used { .. } | Kind::Prod { .. }))
            .filter_map(|l| l.kind.carrier().map(str::to_string))
            .collect();
        v.sort();
        v.dedup();
        v
    }
    pub fn kinds_present(&self) -> Vec<&'static str> {
        let mut v: Vec<&'static str> = self.lines.iter().map(|l| l.kind.code()).collect();
        v.sort_unstable();
        v.dedup();
        v
    }
    /// Σ|v| over all energy values that enter the balance (CONSUMO, PRODUCCION, AUX): the scale `E`
    /// of DESIGN §3.5, and its per-step version.
    pub fn energy_scale(&self) -> (f64, Vec<f64>) {
        let n = self.n_steps();
        let mut per = vec![0.0f64; n];
        for l in &self.lines {
            if matches!(l.kind, Kind::Used { .. } | Kind::Prod { .. } | Kind::Aux) {
                for (i, v) in l.f64s().iter().enumerate() {
                    if i < n && v.is_finite() {
                        per[i] += v.abs();
                    }
                }
            }
        }
        (per.iter().sum(), per)
    }
    /// Plain rendering: metadata first, then lines, `\n` separated, ", " between fields.
    pub fn render_plain(&self) -> String {
        let mut out = String::new();
        for (k, v) in &self.meta {
            out.push_str(&format!("#META {}: {}\n", k, v));
        }
        for l in &self.lines {
            out.push_str(&l.render(", "));
            out.push('\n');
        }
        out
    }
    /// Feature signature used to count distinct inputs in evidence.
    pub fn feature_sig(&self) -> u64 {
        let mut h = crate::rng::Fnv::new();
        h.u64(self.n_steps() as u64);
        h.u64(self.ids().len() as u64);
        for c in self.carriers() {
            h.str(&c);
        }
        for k in self.kinds_present() {
            h.str(k);
        }
        let mut tags: Vec<String> = self
            .lines
            .iter()
            .map(|l| match &l.kind {
                Kind::Used { service, carrier } => format!("U{}{}", service, carrier),
                Kind::Prod { source } => format!("P{}", source),
                Kind::Aux => "A".into(),
                Kind::Out { service } => format!("O{}", service),
                Kind::Need { service } => format!("N{}", service),
            })
            .collect();
        tags.sort();
        tags.dedup();
        for t in tags {
            h.str(&t);
        }
        h.finish()
    }
}

/// Text layout of a rendered file (DESIGN §3.3 "text layout", C10 rewritings).
#[derive(Clone, Debug, Default, Serialize, Deserialize, PartialEq)]
pub struct Layout {
    pub bom: bool,
    pub crlf: bool,
    /// `vector,...` header line.
    pub header: bool,
    /// Field separator variants per line index (cycled): ", " / "," / " , " / ",  ".
    pub seps: Vec<String>,
    /// Leading / trailing whitespace per line index (cycled).
    pub lead: Vec<String>,
    pub trail: Vec<String>,
    /// (position in line list, text) of extra comment / blank lines to interleave.
    pub extra: Vec<(usize, String)>,
    /// Position (line index) before which each metadata line is written; cycled; empty = all on top.
    pub meta_pos: Vec<usize>,
    pub final_newline: bool,
    /// Pad the file with a trailing comment line to exactly this many bytes (sizes at and around I/O buffer
    /// boundaries); ignored when the file is already longer.
    #[serde(default)]
    pub pad_to: Option<usize>,
}

impl Layout {
    pub fn plain() -> Self {
        Layout { final_newline: true, ..Default::default() }
    }
}

pub fn render(b: &Building, lay: &Layout) -> String {
    let nl = if lay.crlf { "\r\n" } else { "\n" };
    let mut rows: Vec<String> = Vec::new();
    let n = b.lines.len();
    // slots[i] = things written before line i (i == n: after the last line)
    let mut slots: Vec<Vec<String>> = vec![Vec::new(); n + 1];
    if lay.header {
        slots[0].push("vector,tipo,src_dst,valores".into());
    }
    for (mi, (k, v)) in b.meta.iter().enumerate() {
        let pos = if lay.meta_pos.is_empty() { 0 } else { lay.meta_pos[mi % lay.meta_pos.len()].min(n) };
        slots[pos].push(format!("#META {}: {}", k, v));
    }
    for (pos, text) in &lay.extra {
        slots[(*pos).min(n)].push(text.clone());
    }
    for i in 0..=n {
        rows.append(&mut slots[i]);
        if i < n {
            let sep = if lay.seps.is_empty() { ", " } else { lay.seps[i % lay.seps.len()].as_str() };
            let lead = if lay.lead.is_empty() { "" } else { lay.lead[i % lay.lead.len()].as_str() };
            let trail = if lay.trail.is_empty() { "" } else { lay.trail[i % lay.trail.len()].as_str() };
            rows.push(format!("{}{}{}", lead, b.lines[i].render(sep), trail));
        }
    }
    let mut s = String::new();
    if lay.bom {
        s.push('\u{feff}');
    }
    s.push_str(&rows.join(nl));
    if lay.final_newline {
        s.push_str(nl);
    }
    if let Some(target) = lay.pad_to {
        // "<nl># xxxx" brings the file to exactly `target` bytes (needs room for the line break and "# ")
        let lead = if s.ends_with('\n') || s.is_empty() { "" } else { nl };
        let overhead = lead.len() + 2;
        if s.len() + overhead <= target {
            let fill = target - s.len() - overhead;
            s.push_str(lead);
            s.push_str("# ");
            s.push_str(&"x".repeat(fill));
        }
    }
    s
}

/// Which weighting factors an evaluation uses.
#[derive(Clone, Debug, Serialize, Deserialize, PartialEq)]
pub enum FactorSpec {
    Loc(String),
    File(String),
}

/// Everything besides the components text that decides an evaluation.
#[derive(Clone, Debug, Serialize, Deserialize, PartialEq)]
pub struct EvalCfg {
    pub factors: FactorSpec,
    pub red1: Option<[f32; 3]>,
    pub red2: Option<[f32; 3]>,
    pub k_exp: f32,
    pub area: f32,
    pub load_matching: bool,
    /// Apply `Factors::strip` as the CLI does by default.
    pub strip: bool,
}

impl EvalCfg {
    pub fn default_loc() -> Self {
        EvalCfg {
            factors: FactorSpec::Loc("PENINSULA".into()),
            red1: None,
            red2: None,
            k_exp: 0.0,
            area: 1.0,
            load_matching: false,
            strip: false,
        }
    }
}
