//! Comparing two evaluations of "the same building" (DESIGN §3.5).
//!
//! The constants below were fixed in DESIGN.md before any check existed and are not tuned.

use crate::model::Building;
use crate::sut::{Cls, Flat};

/// f32 machine epsilon, 2^-23.
pub const EPS: f64 = 1.1920928955078125e-7;
/// Absolute tolerance factor for energies: |a-b| <= C_ABS * EPS * S.
pub const C_ABS: f64 = 64.0;
/// Tolerance factor for ratios: |a-b| <= C_RATIO * EPS * S / denominator.
pub const C_RATIO: f64 = 256.0;
/// Tolerance of a ratio r = num/den whose numerator and denominator each carry an absolute error of
/// `C_ABS*EPS*S + slack`: |dr| <= (1+|r|) * err / den. For |r| <= 3 this is within the design's
/// `C_RATIO*EPS*S/den`; the (1+|r|)/4 factor extends it soundly to the rare ratios far outside [0,1]
/// (e.g. RER = -12 when exports nearly cancel the total).
pub fn ratio_tol(s: f64, den: f64, r: f64, slack: f64) -> f64 {
    let k = ((1.0 + r.abs()) / 4.0).max(1.0);
    k * (C_RATIO * EPS * s + 4.0 * slack) / den
}

/// Ratios are compared only when the denominator exceeds this fraction of S.
pub const RATIO_MIN_DEN: f64 = 1e-3;

#[derive(Clone, Debug)]
pub struct Scale {
    /// E = sum |v| over all declared energy values (annual)
    pub e_an: f64,
    /// per step
    pub e_t: Vec<f64>,
    /// sum |v| over all declared building needs (DEMANDA)
    pub n_an: f64,
    pub area: f64,
}

impl Scale {
    /// Absolute tolerance factor: the design's 64 for series of up to 64 steps; for longer series the sound
    /// worst-case bound of a recursive f32 sum, one rounding per term ((n-1)*eps/2 on each side), is used:
    /// two annual sums over n steps whose terms differ in the last bit can differ by up to n*eps*S.
    pub fn c_abs(&self) -> f64 {
        C_ABS.max(self.e_t.len() as f64)
    }
    /// The same scaling for ratios.
    pub fn k_long(&self) -> f64 {
        self.c_abs() / C_ABS
    }
    pub fn of(b: &Building, area: f64) -> Scale {
        let (e_an, e_t) = b.energy_scale();
        let n_an = b
            .lines
            .iter()
            .filter(|l| l.kind.is_need())
            .flat_map(|l| l.f64s())
            .filter(|v| v.is_finite())
            .map(f64::abs)
            .sum();
        Scale { e_an, e_t, n_an, area }
    }
}

#[derive(Clone, Debug, Default)]
pub struct CmpReport {
    pub mismatches: Vec<String>,
    pub compared: u64,
    pub skipped_ratios: u64,
    /// Largest observed |a-b| / (EPS*S) over energy-like quantities (schedule noise actually seen).
    pub max_noise: f64,
}

impl CmpReport {
    pub fn ok(&self) -> bool {
        self.mismatches.is_empty()
    }
}

fn both_nonfinite_equal(a: f64, b: f64) -> bool {
    (a.is_nan() && b.is_nan()) || (a.is_infinite() && b.is_infinite() && a.signum() == b.signum())
}

/// `slack_abs`: additional absolute tolerance in kWh per unit of (factor) for printed-precision loss
/// (C18 only; 0 elsewhere). `slack_step`: the same per time step.
pub fn compare(a: &Flat, b: &Flat, sc: &Scale, slack_abs: f64, slack_step: f64) -> CmpReport {
    let mut rep = CmpReport::default();
    let f = a.max_factor.max(b.max_factor).max(1.0);
    let area = if sc.area > 0.0 { sc.area } else { 1.0 };
    // C18 only: the by-service weighted energies are (weighted energy of the carrier) x (service share of its
    // EPB use); a printed-precision change of a use moves the share by slack/epus, i.e. the product by
    // slack * |W_carrier| / epus_carrier, which can exceed slack*F when exports dominate.
    let mut amp = 0.0f64;
    if slack_abs > 0.0 {
        let carriers: std::collections::BTreeSet<String> = a
            .items
            .keys()
            .filter_map(|k| k.strip_prefix("cr.").and_then(|r| r.split('.').next()).map(|c| c.to_string()))
            .collect();
        for c in carriers {
            let epus = a.items.get(&format!("cr.{}.used.epus_an", c)).map(|v| v.0.abs()).unwrap_or(0.0);
            if epus <= 0.0 {
                continue;
            }
            let mut w = 0.0f64;
            for step in ["a", "b"] {
                for comp in ["ren", "nren", "co2"] {
                    for side in [a, b] {
                        if let Some(v) = side.items.get(&format!("cr.{}.we.{}.{}", c, step, comp)) {
                            w = w.max(v.0.abs());
                        }
                    }
                }
            }
            amp += w / epus;
        }
    }
    let keys: std::collections::BTreeSet<&String> = a.items.keys().chain(b.items.keys()).collect();
    for k in keys {
        let (va, ca) = a.items.get(k).copied().unwrap_or((0.0, Cls::Unit));
        let (vb, cb) = b.items.get(k).copied().unwrap_or((0.0, Cls::Unit));
        let cls = if a.items.contains_key(k) { ca } else { cb };
        if k.ends_with(".len") {
            // vector lengths: must agree exactly when both present
            if a.items.contains_key(k) && b.items.contains_key(k) && va != vb {
                rep.mismatches.push(format!("{}: {} vs {}", k, va, vb));
            }
            continue;
        }
        let (s, slack) = match cls {
            Cls::E => (sc.e_an, slack_abs),
            Cls::Et(t) => (sc.e_t.get(t).copied().unwrap_or(sc.e_an), slack_step),
            // a weighted figure multiplies an energy by a factor or by a difference of factors (step B minus
            // step A, delivered minus exported): up to |fA| + |fB| + |f_del| <= 3F per kWh of printed-precision slack
            Cls::W => (sc.e_an * f, slack_abs * f * 4.0),
            Cls::Em2 => (sc.e_an / area, slack_abs / area),
            Cls::Wm2 => (sc.e_an * f / area, slack_abs * f * 4.0 / area),
            // the load-matching factor is a ratio of two declared quantities: once those lose printed
            // precision (C18) its change is not bounded by the slack, so it is not compared then
            Cls::Unit => (1.0, if slack_abs > 0.0 && k.contains("f_match") { f64::INFINITY } else { 0.0 }),
            Cls::N => (sc.n_an, slack_abs),
            Cls::Nm2 => (sc.n_an / area, slack_abs / area),
        };
        rep.compared += 1;
        if !va.is_finite() || !vb.is_finite() {
            if !both_nonfinite_equal(va, vb) {
                rep.mismatches.push(format!("{}: {} vs {} (non-finite)", k, va, vb));
            }
            continue;
        }
        let d = (va - vb).abs();
        let by_srv_extra = if amp > 0.0 && k.contains("_by_srv") {
            match cls {
                Cls::W => slack_abs * amp,
                Cls::Wm2 => slack_abs * amp / area,
                _ => 0.0,
            }
        } else {
            0.0
        };
        let tol = sc.c_abs() * EPS * s + slack + by_srv_extra;
        if s > 0.0 && cls != Cls::Unit {
            let noise = d / (EPS * s);
            if noise > rep.max_noise && d <= tol {
                rep.max_noise = noise;
            }
        }
        if d > tol {
            rep.mismatches.push(format!("{}: {:e} vs {:e} (|d|={:e} > tol={:e})", k, va, vb, d, tol));
        }
    }
    // ratios
    let s = sc.e_an * f;
    let den = a.tot_b.abs().min(b.tot_b.abs());
    for (name, ra, rb) in [("rer", a.rer, b.rer), ("rer_nrb", a.rer_nrb, b.rer_nrb), ("rer_onst", a.rer_onst, b.rer_onst)] {
        if !(den > RATIO_MIN_DEN * s) || !ra.is_finite() || !rb.is_finite() {
            if ra.is_finite() != rb.is_finite() && !(den > RATIO_MIN_DEN * s) {
                // ratio of two rounding-noise quantities: nothing to compare
            }
            rep.skipped_ratios += 1;
            continue;
        }
        rep.compared += 1;
        let tol = sc.k_long() * ratio_tol(s, den, ra.abs().max(rb.abs()), 4.0 * slack_abs * f); // 4: bound of a weighted figure, see Cls::W
        if (ra - rb).abs() > tol {
            rep.mismatches.push(format!("{}: {} vs {} (tol {:e})", name, ra, rb, tol));
        }
    }
    // DHW indicator (misc)
    let fa = a.misc.get("fraccion_renovable_demanda_acs_nrb");
    let fb = b.misc.get("fraccion_renovable_demanda_acs_nrb");
    let ea = a.misc.contains_key("error_acs");
    let eb = b.misc.contains_key("error_acs");
    let fragile = |m: Option<f64>| m.map(|d| d <= sc.c_abs() * EPS * sc.e_an + slack_abs + 1e-9).unwrap_or(false);
    // the indicator also tests "annual DHW demand == 0": a demand that the printed precision can round to zero
    // (0.0049 kWh is written 0.00) is as fragile as the two threshold tests; only where precision is lost at all
    let demand_fragile = |d: Option<f64>| slack_abs > 0.0 && d.map(|d| d.abs() <= slack_abs + 1e-9).unwrap_or(false);
    if fragile(a.dhw_threshold_margin) || fragile(b.dhw_threshold_margin) || demand_fragile(a.dhw_demand) || demand_fragile(b.dhw_demand) {
        rep.skipped_ratios += 1;
    } else {
        if ea != eb || fa.is_some() != fb.is_some() {
            rep.mismatches.push(format!("DHW indicator: value/error presence differs: {:?}/{} vs {:?}/{}", fa, ea, fb, eb));
        } else if let (Some(xa), Some(xb)) = (fa, fb) {
            match (xa.parse::<f64>(), xb.parse::<f64>()) {
                (Ok(x), Ok(y)) if x.is_finite() && y.is_finite() => {
                    let dem = a.dhw_demand.unwrap_or(0.0).abs().min(b.dhw_demand.unwrap_or(0.0).abs());
                    if dem > RATIO_MIN_DEN * sc.e_an.max(1e-30) * 1e-3 && dem > 0.0 {
                        // d(Q/dem) = dQ/dem + (Q/dem) * d(dem)/dem
                        let tol = 0.0011 + sc.k_long() * C_RATIO * EPS * sc.e_an / dem + slack_abs * 4.0 / dem + 2.0 * x.abs().max(y.abs()) * slack_abs / dem;
                        rep.compared += 1;
                        if (x - y).abs() > tol {
                            rep.mismatches.push(format!("DHW fraction: {} vs {} (tol {:e})", x, y, tol));
                        }
                    } else {
                        rep.skipped_ratios += 1;
                    }
                }
                _ => {
                    if xa != xb {
                        // non-finite printed values must at least agree textually
                        rep.mismatches.push(format!("DHW fraction text: {} vs {}", xa, xb));
                    }
                }
            }
        }
    }
    rep
}
