//! cteepbd-sim: deterministic simulation with fault injection for energiacte/cteepbd.
//! See /verif/DESIGN.md. Exit codes: 0 = property held on everything explored, 1 = violation
//! (with a `VIOLATION property=<id> replay=<path>` line), 2 = harness error (never a verdict).

mod cmp;
mod engine;
mod entropy;
mod faults;
mod gen;
mod model;
mod props;
mod rewrite;
mod rng;
mod sut;
mod worldp;
mod xmlcheck;

use std::path::PathBuf;

use engine::{Ctx, Property, Tier};

/// The library under test prints to stdout/stderr on some paths (cte.rs, rennrenco2.rs, tmeta.rs).
/// The simulator therefore moves its own stdout to a private descriptor and points fds 1 and 2 of
/// the process at /dev/null before any SUT code runs; `say!` writes to the private descriptor.
static REAL_STDOUT: std::sync::atomic::AtomicI32 = std::sync::atomic::AtomicI32::new(1);

pub fn silence_sut_output() {
    unsafe {
        let saved = libc::dup(1);
        if saved >= 0 {
            libc::fcntl(saved, libc::F_SETFD, libc::FD_CLOEXEC);
            REAL_STDOUT.store(saved, std::sync::atomic::Ordering::SeqCst);
            let null = libc::open(b"/dev/null\0".as_ptr() as *const libc::c_char, libc::O_WRONLY);
            if null >= 0 {
                libc::dup2(null, 1);
                libc::dup2(null, 2);
                libc::close(null);
            }
        }
    }
}

pub fn say_str(s: &str) {
    let fd = REAL_STDOUT.load(std::sync::atomic::Ordering::SeqCst);
    let mut buf = s.as_bytes();
    while !buf.is_empty() {
        let r = unsafe { libc::write(fd, buf.as_ptr() as *const libc::c_void, buf.len()) };
        if r <= 0 {
            break;
        }
        buf = &buf[r as usize..];
    }
}

#[macro_export]
macro_rules! say {
    ($($arg:tt)*) => {{
        let mut s = format!($($arg)*);
        s.push('\n');
        $crate::say_str(&s);
    }};
}

pub fn harness_error(msg: &str) -> ! {
    say!("HARNESS-ERROR: {}", msg);
    std::process::exit(2)
}

struct Args {
    cmd: String,
    prop: String,
    tier: Tier,
    seed: u64,
    workers: u64,
    shard: (u64, u64),
    out: Option<PathBuf>,
    runs: Option<u64>,
    file: Option<PathBuf>,
    raw: bool,
    verif_dir: PathBuf,
    sut_release: Option<PathBuf>,
    sut_debug: Option<PathBuf>,
    shim: Option<PathBuf>,
}

fn parse_args() -> Args {
    let argv: Vec<String> = std::env::args().collect();
    if argv.len() < 2 {
        harness_error("usage: cteepbd-sim <run|replay|worker|selftest> <PROPERTY> [options]");
    }
    let mut a = Args {
        cmd: argv[1].clone(),
        prop: argv.get(2).cloned().unwrap_or_default(),
        tier: match std::env::var("VERIF_TIER").as_deref() {
            Ok("thorough") => Tier::Thorough,
            _ => Tier::Quick,
        },
        seed: std::env::var("VERIF_SEED").ok().and_then(|s| s.trim().parse().ok()).unwrap_or(1),
        workers: std::thread::available_parallelism().map(|n| n.get() as u64).unwrap_or(4),
        shard: (0, 1),
        out: None,
        runs: None,
        file: None,
        raw: false,
        verif_dir: PathBuf::from("/verif"),
        sut_release: None,
        sut_debug: None,
        shim: None,
    };
    let mut i = 3;
    while i < argv.len() {
        let need = |i: usize| -> &str {
            argv.get(i + 1).map(|s| s.as_str()).unwrap_or_else(|| harness_error(&format!("option {} needs a value", argv[i])))
        };
        match argv[i].as_str() {
            "--tier" => {
                a.tier = match need(i) {
                    "quick" => Tier::Quick,
                    "thorough" => Tier::Thorough,
                    other => harness_error(&format!("unknown tier {}", other)),
                };
                i += 1;
            }
            "--seed" => {
                a.seed = need(i).parse().unwrap_or_else(|_| harness_error("bad --seed"));
                i += 1;
            }
            "--workers" => {
                a.workers = need(i).parse().unwrap_or_else(|_| harness_error("bad --workers"));
                i += 1;
            }
            "--runs" => {
                a.runs = Some(need(i).parse().unwrap_or_else(|_| harness_error("bad --runs")));
                i += 1;
            }
            "--shard" => {
                let (x, y) = need(i).split_once('/').unwrap_or_else(|| harness_error("bad --shard"));
                a.shard = (x.parse().unwrap_or(0), y.parse().unwrap_or(1));
                i += 1;
            }
            "--out" => {
                a.out = Some(PathBuf::from(need(i)));
                i += 1;
            }
            "--verif-dir" => {
                a.verif_dir = PathBuf::from(need(i));
                i += 1;
            }
            "--sut-release" => {
                a.sut_release = Some(PathBuf::from(need(i)));
                i += 1;
            }
            "--sut-debug" => {
                a.sut_debug = Some(PathBuf::from(need(i)));
                i += 1;
            }
            "--shim" => {
                a.shim = Some(PathBuf::from(need(i)));
                i += 1;
            }
            "--raw" => a.raw = true,
            other if a.cmd == "replay" && a.file.is_none() && !other.starts_with("--") => a.file = Some(PathBuf::from(other)),
            other => harness_error(&format!("unknown argument {}", other)),
        }
        i += 1;
    }
    a
}

fn dispatch<P: Property>(p: &P, a: &Args) -> i32 {
    let ctx = Ctx {
        verif_seed: a.seed,
        tier: a.tier,
        prop: p.id().to_string(),
        sut_release: a.sut_release.clone(),
        sut_debug: a.sut_debug.clone(),
        shim: a.shim.clone(),
        disk_root: disk_root(&a.verif_dir),
        runs_override: a.runs,
    };
    if a.cmd == "run" {
        sweep_stale_disks(&ctx.disk_root);
    }
    // forward the process-world paths to workers
    let mut extra: Vec<String> = Vec::new();
    for (flag, v) in [("--sut-release", &a.sut_release), ("--sut-debug", &a.sut_debug), ("--shim", &a.shim)] {
        if let Some(p) = v {
            extra.push(flag.to_string());
            extra.push(p.display().to_string());
        }
    }
    match a.cmd.as_str() {
        "run" => engine::check(p, &ctx, a.workers, &a.verif_dir, &extra).exit_code,
        "worker" => {
            let out = a.out.clone().unwrap_or_else(|| harness_error("worker needs --out"));
            engine::worker(p, &ctx, a.shard.0, a.shard.1, &out);
            0
        }
        "replay" => {
            let file = a.file.clone().unwrap_or_else(|| harness_error("replay needs a file"));
            engine::replay(p, &ctx, &file, a.raw)
        }
        "digest" => {
            // campaign digest only (determinism self-test)
            let r = engine::campaign(p, &ctx, a.workers, &extra);
            say!("{:016x} runs={} violation={}", r.digest, r.runs, r.violation.is_some());
            0
        }
        other => harness_error(&format!("unknown command {}", other)),
    }
}

fn main() {
    // a panic of the simulator's own code is a harness error (exit 2), never a verdict
    let r = std::panic::catch_unwind(real_main);
    if r.is_err() {
        harness_error(&format!("the simulator itself panicked: {}", entropy::last_panic_text()));
    }
}

fn real_main() {
    let a = parse_args();
    silence_sut_output();
    entropy::install_panic_hook();
    if let Err(e) = entropy::selftest() {
        harness_error(&format!("entropy seam self-test failed: {}", e));
    }
    sut::force_statics();
    if a.cmd == "xmlgen" {
        // cross-check corpus for the XML scanner: `cteepbd-sim xmlgen <dir> --runs N`
        let dir = PathBuf::from(&a.prop);
        let n = a.runs.unwrap_or(2000);
        xmlgen(&dir, n, a.seed);
        std::process::exit(0);
    }
    let code = match a.prop.as_str() {
        "C05" => dispatch(&props::c05::C05, &a),
        "C06" => dispatch(&props::c06::C06, &a),
        "C10" => dispatch(&props::c10::C10, &a),
        "C16" => dispatch(&props::c16::C16, &a),
        "C17" => dispatch(&props::c17::C17, &a),
        "C18" => dispatch(&props::c18::C18, &a),
        other => harness_error(&format!("property {} has no check in this simulator", other)),
    };
    std::process::exit(code);
}

/// Writes N XML documents (real `to_xml` outputs of generated buildings and randomly damaged copies)
/// to `dir/<i>.xml` and the scanner's verdicts to `dir/verdicts.txt` (`<i> ok|bad <reason>`), for
/// comparison with an independent parser (tools/xml_crosscheck.py uses Python's expat).
fn xmlgen(dir: &std::path::Path, n: u64, seed: u64) {
    use cteepbd::AsCteXml;
    std::fs::create_dir_all(dir).expect("xmlgen dir");
    let mut verdicts = String::new();
    let damage: [&str; 24] = ["<", ">", "&", "\"", "'", "]]>", "<!--", "-->", "--", "\u{1}", "\u{b}", "\u{ffff}", "</x>", "<x>", "<x/>", "&amp;", "&#1;", "&#x41;", "&#xD800;", "&foo;", "<?pi?>", "<![CDATA[a<b]]>", " ", "\u{feff}"];
    let mut i = 0u64;
    let mut idx = 0u64;
    while i < n {
        let mut w = rng::Rng::new(rng::mix(&[seed, 0x584d4c, idx]));
        idx += 1;
        let mut p = gen::gen_profile(&mut w, gen::Focus::Output, false);
        p.f_hostile_text = true;
        p.f_comments = true;
        p.f_control_chars = w.chance(0.2);
        p.steps = 2;
        let b = gen::gen_building(&mut w, &p);
        let text = model::render(&b, &model::Layout::plain());
        let cfg = model::EvalCfg::default_loc();
        let xml = match entropy::in_thread(idx, move || sut::evaluate(&text, &cfg)) {
            Ok(Ok((_, ep))) => ep.to_xml(),
            _ => continue,
        };
        for variant in 0..4 {
            let mut doc = xml.clone();
            if variant > 0 {
                // 1..3 random damages at char boundaries
                for _ in 0..variant {
                    let mut pos = w.usize(doc.len() + 1);
                    while !doc.is_char_boundary(pos) {
                        pos -= 1;
                    }
                    match w.below(3) {
                        0 => doc.insert_str(pos, damage[w.usize(damage.len())]),
                        1 => {
                            if pos < doc.len() {
                                let mut end = pos + 1;
                                while !doc.is_char_boundary(end) {
                                    end += 1;
                                }
                                doc.replace_range(pos..end, "");
                            }
                        }
                        _ => {
                            // truncate
                            if w.chance(0.2) {
                                doc.truncate(pos);
                            } else {
                                doc.insert_str(pos, damage[w.usize(damage.len())]);
                            }
                        }
                    }
                }
            }
            std::fs::write(dir.join(format!("{}.xml", i)), doc.as_bytes()).expect("write xml");
            match xmlcheck::check(&doc) {
                Ok(_) => verdicts.push_str(&format!("{} ok\n", i)),
                Err(e) => verdicts.push_str(&format!("{} bad {} @{}\n", i, e.what.replace('\n', " "), e.pos)),
            }
            i += 1;
            if i >= n {
                break;
            }
        }
    }
    std::fs::write(dir.join("verdicts.txt"), verdicts).expect("write verdicts");
    say!("xmlgen: {} documents in {}", i, dir.display());
}

/// Root of the simulated disks: tmpfs when available, else the checkout's own build directory (never /tmp).
fn disk_root(verif_dir: &std::path::Path) -> PathBuf {
    let shm = PathBuf::from("/dev/shm/cteepbd-sim");
    if std::fs::create_dir_all(&shm).is_ok() && std::fs::write(shm.join(".probe"), b"x").is_ok() {
        let _ = std::fs::remove_file(shm.join(".probe"));
        return shm;
    }
    let alt = verif_dir.join("target").join("simdisk");
    if std::fs::create_dir_all(&alt).is_err() {
        harness_error("no writable place for the simulated disks (/dev/shm and <verif>/target/simdisk both failed)");
    }
    alt
}

/// Remove what dead simulator processes (killed runs) left behind: `<pid>/` and `ctl-<pid>/`.
fn sweep_stale_disks(root: &std::path::Path) {
    if let Ok(rd) = std::fs::read_dir(root) {
        for e in rd.flatten() {
            let name = e.file_name().to_string_lossy().to_string();
            let pid = name.strip_prefix("ctl-").or_else(|| name.strip_prefix("confirm-")).unwrap_or(&name);
            if let Ok(pid) = pid.parse::<i32>() {
                let alive = unsafe { libc::kill(pid, 0) } == 0;
                if !alive {
                    let _ = std::fs::remove_dir_all(e.path());
                }
            }
        }
    }
}
