//! World P: the real `cteepbd` binary over a simulated disk (DESIGN §3.1 S2-S4).

use crate::cmp::Scale;
use crate::engine::{Ctx, Exec, Violation};
use crate::rng::Fnv;

pub fn c10_process_world(_ctx: &Ctx, _scn: &crate::props::c10::Scn, _sc: &Scale, _ex: &mut Exec, _fp: &mut Fnv) -> Option<Violation> {
    None
}
