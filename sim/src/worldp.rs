//! World P: the real `cteepbd` binary over a simulated disk (DESIGN §3.1 S2-S4).
//!
//! An *incarnation* is one process: argv, entropy seed (hash schedule of the whole process), fault
//! plan for its tracked system calls. A *history* is a disk image plus a sequence of incarnations
//! over it. Everything is data: replay does not call any generator.

use std::collections::BTreeMap;
use std::io::Read;
use std::path::{Path, PathBuf};
use std::sync::atomic::{AtomicU64, Ordering};
use std::time::{Duration, Instant};

use serde::{Deserialize, Serialize};

use crate::engine::Ctx;
use crate::faults::Blob;
use crate::rng::{Fnv, Rng};

#[derive(Clone, Debug, PartialEq, Serialize, Deserialize)]
pub enum PlanKind {
    Eintr,
    Short(u64),
    Err(i32),
    Crash,
    /// read() returns 0 early: the file was cut short after it was opened.
    Eof,
    /// The k-th status call (statx / fstat) on a tracked descriptor announces this size (`idx` counts
    /// status calls, an index space of its own): the file grows or shrinks between stat and read.
    StatSize(u64),
    /// The k-th status call on a tracked descriptor fails with this errno.
    StatErr(i32),
    /// The simulated disk takes this many more bytes in all (`idx` ignored): the write that crosses the
    /// limit is cut short and every later one fails with ENOSPC.
    Quota(u64),
    /// Not a fault but a request (`idx` is a PRNG seed): before the incarnation runs, the same command is
    /// rehearsed without faults on a copy of the disk, and faults of the given class are placed on the calls
    /// it *really* made (0: benign set, 1: one hard fault, 2: a crash) - so that a program whose I/O pattern
    /// differs from the predicted one (chunked or buffered transfers, temporary files) is faulted at its own calls.
    Measured(u8),
}

#[derive(Clone, Debug, PartialEq, Serialize, Deserialize)]
pub struct PlanEntry {
    pub idx: u64,
    pub kind: PlanKind,
}

#[derive(Clone, Debug, PartialEq, Serialize, Deserialize)]
pub struct Incarnation {
    pub argv: Vec<String>,
    pub entropy: u64,
    pub plan: Vec<PlanEntry>,
    /// Run the debug-profile binary (panics unwind; integer overflow checks on).
    pub debug_build: bool,
}

/// State of the simulated disk before the first incarnation.
#[derive(Clone, Debug, Default, PartialEq, Serialize, Deserialize)]
pub struct DiskImage {
    pub files: Vec<(String, Blob)>,
    pub dirs: Vec<String>,
    /// Files made read-only (mode 0444) — note: the simulator runs as root, for which file modes are
    /// not enforced, so this is only used when the harness is not root.
    pub readonly: Vec<String>,
}

impl DiskImage {
    pub fn with_file(mut self, name: &str, content: Blob) -> Self {
        self.files.retain(|(n, _)| n != name);
        self.files.push((name.to_string(), content));
        self
    }
    pub fn get(&self, name: &str) -> Option<&Blob> {
        self.files.iter().find(|(n, _)| n == name).map(|(_, b)| b)
    }
}

#[derive(Clone, Debug, PartialEq)]
pub struct TraceLine {
    pub idx: u64,
    pub call: String,
    pub fd: i64,
    pub path: String,
    pub req: i64,
    pub res: i64,
    pub errno: i32,
    pub fault: String,
}

#[derive(Clone, Debug)]
pub struct Outcome {
    pub exit: Option<i32>,
    pub signal: Option<i32>,
    pub timed_out: bool,
    /// stderr contained `panicked at` (the process was killed by the harness if it kept running).
    pub panicked: bool,
    pub panic_site: String,
    pub stdout: Vec<u8>,
    pub stderr: Vec<u8>,
    pub trace: Vec<TraceLine>,
    /// The plan the incarnation ran under, `Measured` requests expanded.
    pub plan_used: Vec<PlanEntry>,
}

impl Outcome {
    pub fn crashed_by_plan(&self) -> bool {
        self.trace.last().map(|t| t.fault == "crash").unwrap_or(false)
    }
    pub fn faults_fired(&self) -> Vec<String> {
        self.trace
            .iter()
            .filter(|t| t.fault != "-")
            .map(|t| {
                if t.fault == "err" {
                    format!("{}:{}", t.call, errno_name(t.errno))
                } else {
                    format!("{}:{}", t.call, t.fault)
                }
            })
            .collect()
    }
    pub fn status_label(&self) -> String {
        if self.timed_out {
            "hang".into()
        } else if self.panicked {
            format!("panic({})", self.panic_site)
        } else if let Some(s) = self.signal {
            format!("signal({})", s)
        } else {
            format!("exit({})", self.exit.unwrap_or(-1))
        }
    }
    pub fn stderr_text(&self) -> String {
        String::from_utf8_lossy(&self.stderr).into_owned()
    }
    pub fn stdout_text(&self) -> String {
        String::from_utf8_lossy(&self.stdout).into_owned()
    }
}

pub fn errno_name(e: i32) -> &'static str {
    match e {
        2 => "ENOENT",
        4 => "EINTR",
        5 => "EIO",
        12 => "ENOMEM",
        13 => "EACCES",
        20 => "ENOTDIR",
        21 => "EISDIR",
        24 => "EMFILE",
        28 => "ENOSPC",
        30 => "EROFS",
        32 => "EPIPE",
        38 => "ENOSYS",
        122 => "EDQUOT",
        _ => "E?",
    }
}

pub const ENOENT: i32 = 2;
pub const EIO: i32 = 5;
pub const ENOMEM: i32 = 12;
pub const EACCES: i32 = 13;
pub const EISDIR: i32 = 21;
pub const EMFILE: i32 = 24;
pub const ENOSPC: i32 = 28;
pub const EROFS: i32 = 30;
pub const EDQUOT: i32 = 122;
pub const ENOSYS: i32 = 38;
pub const EPIPE: i32 = 32;

static DISK_COUNTER: AtomicU64 = AtomicU64::new(0);

/// A simulated disk: a private directory on tmpfs, removed on drop.
pub struct Disk {
    pub base: PathBuf,
    pub root: PathBuf,
    pub ctl: PathBuf,
}

impl Disk {
    pub fn create(ctx: &Ctx, image: &DiskImage) -> Disk {
        let n = DISK_COUNTER.fetch_add(1, Ordering::Relaxed);
        let base = ctx.disk_root.join(format!("{}", std::process::id())).join(format!("d{}", n));
        let root = base.join("disk");
        let ctl = base.join("ctl");
        let _ = std::fs::remove_dir_all(&base);
        std::fs::create_dir_all(&root).unwrap_or_else(|e| crate::harness_error(&format!("cannot create simulated disk {}: {}", root.display(), e)));
        std::fs::create_dir_all(&ctl).unwrap_or_else(|e| crate::harness_error(&format!("cannot create {}: {}", ctl.display(), e)));
        for d in &image.dirs {
            let _ = std::fs::create_dir_all(root.join(d));
        }
        for (name, content) in &image.files {
            std::fs::write(root.join(name), content.bytes())
                .unwrap_or_else(|e| crate::harness_error(&format!("cannot write simulated file {}: {}", name, e)));
        }
        Disk { base, root, ctl }
    }
    pub fn read(&self, name: &str) -> Option<Vec<u8>> {
        std::fs::read(self.root.join(name)).ok()
    }
    pub fn exists(&self, name: &str) -> bool {
        self.root.join(name).exists()
    }
    pub fn write(&self, name: &str, content: &[u8]) {
        let _ = std::fs::write(self.root.join(name), content);
    }
    /// Names and contents of all regular files, sorted (for fingerprints).
    pub fn snapshot(&self) -> BTreeMap<String, Vec<u8>> {
        let mut m = BTreeMap::new();
        if let Ok(rd) = std::fs::read_dir(&self.root) {
            for e in rd.flatten() {
                if e.path().is_file() {
                    if let Ok(b) = std::fs::read(e.path()) {
                        m.insert(e.file_name().to_string_lossy().to_string(), b);
                    }
                }
            }
        }
        m
    }
}

impl Drop for Disk {
    fn drop(&mut self) {
        let _ = std::fs::remove_dir_all(&self.base);
    }
}


/// Leftovers next to an output path (a temporary file of an earlier save that was killed before its rename, an
/// editor's backup): a program that writes through a neighbour of the output path meets them.
pub fn stale_sibling(d: &mut Rng, name: &str) -> String {
    match d.below(7) {
        0 => format!("{}.tmp", name),
        1 => format!(".{}.tmp", name),
        2 => format!("{}~", name),
        3 => format!("{}.new", name),
        4 => format!("{}.part", name),
        5 => format!("{}.bak", name),
        _ => format!("{}.tmp~", name),
    }
}

fn render_plan(plan: &[PlanEntry]) -> String {
    let mut s = String::new();
    for e in plan {
        match &e.kind {
            PlanKind::Eintr => s.push_str(&format!("{} eintr\n", e.idx)),
            PlanKind::Short(n) => s.push_str(&format!("{} short {}\n", e.idx, n)),
            PlanKind::Err(errno) => s.push_str(&format!("{} err {}\n", e.idx, errno)),
            PlanKind::Crash => s.push_str(&format!("{} crash\n", e.idx)),
            PlanKind::Eof => s.push_str(&format!("{} eof\n", e.idx)),
            PlanKind::StatSize(n) => s.push_str(&format!("{} statsize {}\n", e.idx, n)),
            PlanKind::StatErr(errno) => s.push_str(&format!("{} staterr {}\n", e.idx, errno)),
            PlanKind::Quota(n) => s.push_str(&format!("{} quota {}\n", e.idx, n)),
            PlanKind::Measured(_) => {}
        }
    }
    s
}

fn parse_trace(text: &str) -> Vec<TraceLine> {
    let mut out = Vec::new();
    for line in text.lines() {
        // <index> <call> <fd> <path> <req> <res> <errno> <fault>; the path may contain spaces: parse from both ends
        let parts: Vec<&str> = line.split(' ').collect();
        if parts.len() < 8 {
            continue;
        }
        let n = parts.len();
        let path = parts[3..n - 4].join(" ");
        out.push(TraceLine {
            idx: parts[0].parse().unwrap_or(0),
            call: parts[1].to_string(),
            fd: parts[2].parse().unwrap_or(-1),
            path,
            req: parts[n - 4].parse().unwrap_or(0),
            res: parts[n - 3].parse().unwrap_or(0),
            errno: parts[n - 2].parse().unwrap_or(0),
            fault: parts[n - 1].to_string(),
        });
    }
    out
}

const WATCHDOG: Duration = Duration::from_secs(30);

/// Run one incarnation over the disk.
pub fn run_incarnation(ctx: &Ctx, disk: &Disk, inc: &Incarnation, seq: usize) -> Outcome {
    let bin: &Path = if inc.debug_build {
        ctx.sut_debug.as_deref().unwrap_or_else(|| crate::harness_error("scenario needs the debug CLI binary (--sut-debug)"))
    } else {
        ctx.sut_release.as_deref().unwrap_or_else(|| crate::harness_error("scenario needs the release CLI binary (--sut-release)"))
    };
    let shim = ctx.shim.as_deref().unwrap_or_else(|| crate::harness_error("scenario needs the LD_PRELOAD shim (--shim)"));
    let plan_path = disk.ctl.join(format!("plan{}", seq));
    let trace_path = disk.ctl.join(format!("trace{}", seq));
    let out_path = disk.ctl.join(format!("stdout{}", seq));
    let err_path = disk.ctl.join(format!("stderr{}", seq));
    let plan = expand_measured(ctx, disk, inc, seq);
    std::fs::write(&plan_path, render_plan(&plan)).expect("plan file");
    let _ = std::fs::remove_file(&trace_path);
    let stdout = std::fs::File::create(&out_path).expect("stdout file");
    let stderr = std::fs::File::create(&err_path).expect("stderr file");
    let mut cmd = std::process::Command::new(bin);
    cmd.args(inc.argv.iter().map(|a| os_arg(a)))
        .current_dir(&disk.root)
        .env_clear()
        .env("LD_PRELOAD", shim)
        .env("VERIF_ROOT", &disk.root)
        .env("VERIF_PLAN", &plan_path)
        .env("VERIF_TRACE", &trace_path)
        .env("VERIF_ENTROPY", inc.entropy.to_string())
        .stdin(std::process::Stdio::null())
        .stdout(stdout)
        .stderr(stderr);
    let mut child = match cmd.spawn() {
        Ok(c) => c,
        Err(e) => crate::harness_error(&format!("cannot spawn {}: {}", bin.display(), e)),
    };
    let t0 = Instant::now();
    let mut timed_out = false;
    let mut killed_after_panic = false;
    let mut polls = 0u64;
    let status = loop {
        match child.try_wait() {
            Ok(Some(st)) => break Some(st),
            Ok(None) => {}
            Err(_) => break None,
        }
        polls += 1;
        // after the first 20 ms look at stderr now and then: a debug build that panicked never ends
        if polls % 64 == 0 && t0.elapsed() > Duration::from_millis(20) {
            if let Ok(mut f) = std::fs::File::open(&err_path) {
                let mut s = Vec::new();
                let _ = f.read_to_end(&mut s);
                if find_sub(&s, b"panicked at").is_some() {
                    // give it a moment to finish printing, then end it
                    std::thread::sleep(Duration::from_millis(30));
                    let _ = child.kill();
                    killed_after_panic = true;
                    break child.wait().ok();
                }
            }
        }
        if t0.elapsed() > WATCHDOG {
            let _ = child.kill();
            timed_out = true;
            break child.wait().ok();
        }
        std::thread::sleep(Duration::from_micros(150));
    };
    let stdout = std::fs::read(&out_path).unwrap_or_default();
    let stderr = std::fs::read(&err_path).unwrap_or_default();
    let trace = parse_trace(&std::fs::read_to_string(&trace_path).unwrap_or_default());
    let panicked = find_sub(&stderr, b"panicked at").is_some();
    let panic_site = if panicked { panic_site_of(&String::from_utf8_lossy(&stderr)) } else { String::new() };
    use std::os::unix::process::ExitStatusExt;
    let (exit, signal) = match status {
        Some(st) => (st.code(), if killed_after_panic || timed_out { None } else { st.signal() }),
        None => (None, None),
    };
    Outcome { exit, signal, timed_out, panicked, panic_site, stdout, stderr, trace, plan_used: plan }
}

fn copy_tree(from: &Path, to: &Path) {
    let _ = std::fs::create_dir_all(to);
    if let Ok(rd) = std::fs::read_dir(from) {
        let mut entries: Vec<_> = rd.flatten().collect();
        entries.sort_by_key(|e| e.file_name());
        for e in entries {
            let (src, dst) = (e.path(), to.join(e.file_name()));
            if src.is_dir() {
                copy_tree(&src, &dst);
            } else {
                let _ = std::fs::copy(&src, &dst);
            }
        }
    }
}

/// Expand `Measured` requests: rehearse the command without faults on a copy of the disk and place the
/// faults on the calls it really made. A pure function of (disk, incarnation, code).
fn expand_measured(ctx: &Ctx, disk: &Disk, inc: &Incarnation, seq: usize) -> Vec<PlanEntry> {
    let mut plan: Vec<PlanEntry> = inc.plan.iter().filter(|e| !matches!(e.kind, PlanKind::Measured(_))).cloned().collect();
    let requests: Vec<(u64, u8)> = inc.plan.iter().filter_map(|e| if let PlanKind::Measured(c) = e.kind { Some((e.idx, c)) } else { None }).collect();
    if requests.is_empty() {
        return plan;
    }
    let n = DISK_COUNTER.fetch_add(1, Ordering::Relaxed);
    let base = ctx.disk_root.join(format!("{}", std::process::id())).join(format!("d{}", n));
    let rehearsal = Disk { root: base.join("disk"), ctl: base.join("ctl"), base };
    let _ = std::fs::remove_dir_all(&rehearsal.base);
    copy_tree(&disk.root, &rehearsal.root);
    let _ = std::fs::create_dir_all(&rehearsal.ctl);
    let plain = Incarnation { plan: Vec::new(), ..inc.clone() };
    let r = run_incarnation(ctx, &rehearsal, &plain, seq);
    let shape: Vec<TraceLine> = r.trace.iter().filter(|t| t.call != "stat").cloned().collect();
    for (seed, class) in requests {
        let mut rng = Rng::for_stream(seed, 0x4d45_4153);
        match class {
            0 => plan.extend(benign_plan(&mut rng, &shape, 0.35)),
            1 => {
                if let Some((e, _)) = hard_fault(&mut rng, &shape) {
                    plan.push(e);
                }
            }
            _ => {
                if !shape.is_empty() {
                    plan.push(PlanEntry { idx: rng.below(shape.len() as u64), kind: PlanKind::Crash });
                }
            }
        }
    }
    plan
}

/// Marker of an argument given as raw bytes (arguments are byte strings on Unix; replay files are JSON):
/// `RAW_ARG` followed by hex digits.
pub const RAW_ARG: &str = "\u{e000}hex:";

pub fn raw_arg(bytes: &[u8]) -> String {
    format!("{}{}", RAW_ARG, bytes.iter().map(|b| format!("{:02x}", b)).collect::<String>())
}

fn os_arg(a: &str) -> std::ffi::OsString {
    use std::os::unix::ffi::OsStringExt;
    match a.strip_prefix(RAW_ARG) {
        Some(h) => std::ffi::OsString::from_vec((0..h.len() / 2).filter_map(|i| u8::from_str_radix(&h[2 * i..2 * i + 2], 16).ok()).collect()),
        None => std::ffi::OsString::from(a),
    }
}

pub fn find_sub(hay: &[u8], needle: &[u8]) -> Option<usize> {
    if needle.is_empty() || hay.len() < needle.len() {
        return None;
    }
    hay.windows(needle.len()).position(|w| w == needle)
}

/// `file:line` from "thread 'main' panicked at src/foo.rs:12:5:".
pub fn panic_site_of(stderr: &str) -> String {
    if let Some(p) = stderr.find("panicked at ") {
        let rest = &stderr[p + "panicked at ".len()..];
        let tok: String = rest.chars().take_while(|c| !c.is_whitespace() && *c != ',').collect();
        let tok = tok.trim_end_matches(':');
        // file:line:col -> file:line
        let parts: Vec<&str> = tok.split(':').collect();
        let site = if parts.len() >= 2 { format!("{}:{}", parts[0], parts[1]) } else { tok.to_string() };
        // reduce registry / absolute paths to crate-relative
        if let Some(pos) = site.rfind("/src/") {
            let head = &site[..pos];
            let crate_dir = head.rsplit('/').next().unwrap_or("");
            if crate_dir == "repo" || crate_dir.is_empty() {
                return site[pos + 1..].to_string();
            }
            return format!("{}/{}", crate_dir, &site[pos + 1..]);
        }
        return site;
    }
    "<unknown>".into()
}

// ---------------------------------------------------------------------------------------------
// Fault plans

/// Benign plan (set B): EINTR on open/read/write, short reads and writes, at calls of the given kinds.
/// `shape` is the fault-free trace of the same incarnation (so that faults land on real calls).
pub fn benign_plan(rng: &mut Rng, shape: &[TraceLine], density: f64) -> Vec<PlanEntry> {
    let mut plan = Vec::new();
    let mut shift = 0u64; // every injected EINTR makes the SUT repeat the call: later indices move by one
    for t in shape {
        if !rng.chance(density) {
            continue;
        }
        let idx = t.idx + shift;
        match t.call.as_str() {
            "open" | "openat" => {
                plan.push(PlanEntry { idx, kind: PlanKind::Eintr });
                shift += 1;
            }
            "read" | "write" => {
                if rng.chance(0.4) {
                    plan.push(PlanEntry { idx, kind: PlanKind::Eintr });
                    shift += 1;
                } else if t.res > 1 {
                    let n = 1 + rng.below((t.res - 1) as u64);
                    plan.push(PlanEntry { idx, kind: PlanKind::Short(n) });
                    shift += 1; // the remainder is transferred by one more call
                    // sometimes shorten the continuation too
                    if rng.chance(0.3) && (t.res as u64 - n) > 1 {
                        let n2 = 1 + rng.below(t.res as u64 - n - 1);
                        plan.push(PlanEntry { idx: idx + 1, kind: PlanKind::Short(n2) });
                        shift += 1;
                    }
                }
            }
            _ => {}
        }
    }
    plan
}

/// One hard fault (set H) on a call of the fault-free shape.
pub fn hard_fault(rng: &mut Rng, shape: &[TraceLine]) -> Option<(PlanEntry, String)> {
    let candidates: Vec<&TraceLine> = shape.iter().filter(|t| matches!(t.call.as_str(), "open" | "openat" | "read" | "write")).collect();
    if candidates.is_empty() {
        return None;
    }
    let t = candidates[rng.usize(candidates.len())];
    let is_create = (t.req & 0o100) != 0; // O_CREAT
    let (errno, class) = match t.call.as_str() {
        "open" | "openat" => {
            if is_create {
                (*rng.pick(&[EACCES, ENOSPC, EROFS, ENOENT, EISDIR, EMFILE]), "create")
            } else {
                (*rng.pick(&[ENOENT, EACCES, EISDIR, EMFILE, ENOMEM]), "open")
            }
        }
        "read" => (EIO, "read"),
        _ => (*rng.pick(&[ENOSPC, EIO, EDQUOT, EPIPE]), "write"),
    };
    Some((PlanEntry { idx: t.idx, kind: PlanKind::Err(errno) }, format!("{}:{}", class, errno_name(errno))))
}

/// Digest of an outcome for fingerprints (deterministic parts only).
pub fn outcome_digest(fp: &mut Fnv, o: &Outcome) {
    fp.str(&o.status_label());
    if o.panicked || o.timed_out || o.signal.is_some() {
        // a panic message carries the OS thread id ("thread 'main' (8604) panicked"), and how much a dying
        // process still wrote is not decided by the simulator: only status and site are part of the fingerprint
        fp.str(&o.panic_site);
        return;
    }
    fp.bytes(&o.stdout).bytes(&[0]);
    // digit runs on stderr are not decided by the simulator either (a message may name a temporary file that carries
    // the process id)
    let mut err = Vec::with_capacity(o.stderr.len());
    let mut in_digits = false;
    for &b in &o.stderr {
        if b.is_ascii_digit() {
            if !in_digits {
                err.push(b'#');
            }
            in_digits = true;
        } else {
            in_digits = false;
            err.push(b);
        }
    }
    fp.bytes(&err).bytes(&[0]);
    for t in &o.trace {
        // digit runs in a path are not decided by the simulator (a temporary file may carry the process id)
        let mut path = String::with_capacity(t.path.len());
        let mut in_digits = false;
        for c in t.path.chars() {
            if c.is_ascii_digit() {
                if !in_digits {
                    path.push('#');
                }
                in_digits = true;
            } else {
                in_digits = false;
                path.push(c);
            }
        }
        // the descriptor number and open flags (`req` of an open) are left out for the same reason: they
        // describe how the process does its I/O, not what it does
        let req = if t.call == "open" || t.call == "openat" { 0 } else { t.req as u64 };
        fp.u64(t.idx).str(&t.call).str(&path).u64(req).u64(t.res.max(-1) as u64 * (t.call != "open" && t.call != "openat") as u64).u64(t.errno as u64).str(&t.fault);
    }
}

// ---------------------------------------------------------------------------------------------
// C10 in the process world: "in another process gives the same results"

use crate::cmp::Scale;
use crate::engine::{Exec, Violation};

/// Numbers of the plain report (stdout), keyed by line label: a crude but independent reader.
/// Each number comes with the number of decimals it was printed with.
pub fn report_numbers(stdout: &str) -> BTreeMap<String, Vec<(f64, usize)>> {
    let mut m = BTreeMap::new();
    let start = stdout.find("** Eficiencia energética").unwrap_or(0);
    let mut section = String::new();
    for line in stdout[start..].lines() {
        let l = line.trim();
        let is_header = l.starts_with("**") || l.starts_with('*') || l.starts_with('+') || (l.ends_with(':') && !l.starts_with('-'));
        let mut nums = Vec::new();
        let mut label = String::new();
        let mut tok = String::new();
        let flush = |tok: &mut String, nums: &mut Vec<(f64, usize)>, label: &mut String| {
            if !tok.is_empty() {
                let t = tok.trim_end_matches(['.', ',']);
                let numeric_shape = t.chars().any(|c| c.is_ascii_digit())
                    && t.chars().all(|c| c.is_ascii_digit() || matches!(c, '.' | '-' | '+' | 'e' | 'E'));
                let decimals = t.find('.').map(|p| t.len() - p - 1).unwrap_or(0);
                match t.parse::<f64>() {
                    Ok(v) if numeric_shape => nums.push((v, decimals)),
                    _ => {
                        if t == "NaN" || t == "inf" || t == "-inf" {
                            nums.push((f64::NAN, 0));
                        } else {
                            label.push_str(tok);
                            label.push(' ');
                        }
                    }
                }
                tok.clear();
            }
        };
        for ch in l.chars() {
            if ch.is_whitespace() || ch == '=' || ch == ':' {
                flush(&mut tok, &mut nums, &mut label);
            } else {
                tok.push(ch);
            }
        }
        flush(&mut tok, &mut nums, &mut label);
        if is_header {
            section = label.trim().to_string();
        }
        if !nums.is_empty() {
            m.insert(format!("{} | {}", section, label.trim()), nums);
        }
    }
    m
}

pub fn c10_process_world(ctx: &Ctx, scn: &crate::props::c10::Scn, sc: &Scale, ex: &mut Exec, fp: &mut Fnv) -> Option<Violation> {
    use crate::model::FactorSpec;
    // CLI arguments equivalent to the library configuration
    let mut image = DiskImage::default();
    let mut base_args: Vec<String> = Vec::new();
    match &scn.cfg.factors {
        FactorSpec::Loc(l) => {
            base_args.push("-l".into());
            base_args.push(l.clone());
        }
        FactorSpec::File(t) => {
            image = image.with_file("factors.csv", Blob::Utf8(t.clone()));
            base_args.push("-f".into());
            base_args.push("factors.csv".into());
        }
    }
    if matches!(scn.cfg.factors, FactorSpec::Loc(_)) {
        for (flag, v) in [("--red1", scn.cfg.red1), ("--red2", scn.cfg.red2)] {
            if let Some(f) = v {
                base_args.push(flag.into());
                for x in f {
                    base_args.push(format!("{}", x));
                }
            }
        }
    }
    // when the file declares the area / k_exp as metadata, every other such run lets the CLI take them from
    // there (what is declared in the file is part of the evaluation); decided by the data, not by a PRNG
    let legacy_of = |k: &str| match k {
        "CTE_AREAREF" => "Area_ref",
        "CTE_KEXP" => "kexp",
        _ => "Localizacion",
    };
    let has_meta = |k: &str| scn.base.meta.iter().any(|(key, _)| key == k || key == legacy_of(k));
    let from_meta = scn.proc_seeds.first().map(|s| s % 2 == 0).unwrap_or(false);
    let mut eff_area = sc.area;
    if !(from_meta && has_meta("CTE_AREAREF")) {
        base_args.push("-a".into());
        base_args.push(format!("{}", scn.cfg.area));
    } else if let Some(a) = scn.base.meta.iter().find(|(k, _)| k == "CTE_AREAREF" || k == "Area_ref").and_then(|(_, v)| v.trim().parse::<f64>().ok()) {
        eff_area = a; // the per-m2 tolerances must use the area the CLI actually uses
    }
    let sc = &Scale { area: eff_area, ..sc.clone() };
    if !(from_meta && has_meta("CTE_KEXP")) {
        base_args.push("-k".into());
        base_args.push(format!("{}", scn.cfg.k_exp));
    }
    if scn.cfg.load_matching {
        base_args.push("--load_matching".into());
    }
    if !scn.cfg.strip {
        base_args.push("-F".into());
    }
    image = image.with_file("base.csv", Blob::Utf8(scn.base_text.clone()));
    image = image.with_file("rew.csv", Blob::Utf8(scn.rew_text.clone()));
    let disk = Disk::create(ctx, &image);
    let mut results: Vec<(String, Outcome, Option<serde_json::Value>)> = Vec::new();
    let mut seq = 0;
    for (name, file) in [("base", "base.csv"), ("rewritten", "rew.csv")] {
        for &entropy in &scn.proc_seeds {
            let mut argv = vec!["-c".to_string(), file.to_string()];
            argv.extend(base_args.iter().cloned());
            let json_name = format!("r{}.json", seq);
            argv.push("--json".into());
            argv.push(json_name.clone());
            // "in another process": the other process also meets other I/O behaviour - every second incarnation reads
            // its input through interrupted and shortened calls (benign set, placed on the calls it really makes)
            let plan = if seq % 2 == 1 { vec![PlanEntry { idx: entropy ^ 0x5eed, kind: PlanKind::Measured(0) }] } else { Vec::new() };
            let inc = Incarnation { argv, entropy, plan, debug_build: false };
            let out = run_incarnation(ctx, &disk, &inc, seq);
            seq += 1;
            outcome_digest(fp, &out);
            for f in out.faults_fired() {
                ex.count(&format!("fault_fired:{}", f), 1);
            }
            ex.count("process_incarnations", 1);
            ex.count("tracked_syscalls", out.trace.len() as u64);
            let json = disk.read(&json_name).and_then(|b| serde_json::from_slice::<serde_json::Value>(&b).ok());
            results.push((format!("{} text, entropy seed {:#x}", name, entropy), out, json));
        }
    }
    let (ref_name, ref_out, ref_json) = &results[0];
    for (name, out, json) in results.iter().skip(1) {
        if out.status_label() != ref_out.status_label() {
            // rewritten text may legitimately name another file in messages; status must agree
            return Some(Violation::new(
                "process_dependence",
                "status",
                format!("CLI ended with {} for [{}] but {} for [{}]", ref_out.status_label(), ref_name, out.status_label(), name),
            ));
        }
        if ref_out.exit != Some(0) {
            continue;
        }
        // stdout report, numerically
        let (a, b) = (report_numbers(&ref_out.stdout_text()), report_numbers(&out.stdout_text()));
        if a.keys().collect::<Vec<_>>() != b.keys().collect::<Vec<_>>() {
            return Some(Violation::new(
                "process_dependence",
                "report-structure",
                format!("plain reports of [{}] and [{}] have different lines/tables: {:?} vs {:?}", ref_name, name, a.keys().collect::<Vec<_>>(), b.keys().collect::<Vec<_>>()),
            ));
        }
        let f = [ref_json, json].iter().filter_map(|j| j.as_ref()).map(json_max_factor).fold(1.0f64, f64::max);
        let den = ref_json
            .as_ref()
            .map(|j| {
                j.pointer("/balance/we/b/ren").and_then(|v| v.as_f64()).unwrap_or(0.0) + j.pointer("/balance/we/b/nren").and_then(|v| v.as_f64()).unwrap_or(0.0)
            })
            .unwrap_or(0.0)
            .abs();
        for (k, va) in &a {
            let vb = &b[k];
            if va.len() != vb.len() {
                return Some(Violation::new("process_dependence", "report-structure", format!("report line {:?}: {:?} vs {:?}", k, va, vb)));
            }
            if k.contains("Porcentaje renovable") {
                continue; // DHW indicator: compared in the library world with its threshold guards
            }
            let is_ratio = k.contains("RER");
            if is_ratio && !(den > crate::cmp::RATIO_MIN_DEN * sc.e_an * f) {
                ex.count("skipped_ratio_comparisons", 1);
                continue;
            }
            for ((x, dx), (y, dy)) in va.iter().zip(vb.iter()) {
                if x.is_nan() && y.is_nan() {
                    continue;
                }
                // one unit of the last printed digit + the rounding tolerance of DESIGN 3.5
                let unit = 10f64.powi(-(*dx.min(dy) as i32)) * 1.1;
                let tol = if is_ratio {
                    unit + sc.k_long() * crate::cmp::ratio_tol(sc.e_an * f, den, va.iter().chain(vb.iter()).fold(0.0f64, |m, v| m.max(v.0.abs())), 0.0)
                } else {
                    unit + sc.c_abs() * crate::cmp::EPS * sc.e_an.max(sc.n_an) * f / sc.area.max(1e-9)
                };
                if !((x - y).abs() <= tol) {
                    return Some(Violation::new(
                        "process_dependence",
                        "report-number",
                        format!("report line {:?}: {} for [{}] but {} for [{}] (tol {:e})", k, x, ref_name, y, name, tol),
                    ));
                }
            }
        }
        // JSON documents, semantically: whole-building figures
        match (ref_json, json) {
            (Some(ja), Some(jb)) => {
                if let Some(m) = json_balance_mismatch(ja, jb, sc) {
                    return Some(Violation::new("process_dependence", "json", format!("--json of [{}] vs [{}]: {}", ref_name, name, m)));
                }
            }
            (None, None) => {
                // nothing was evaluated (a components file without components): no result document on either side
                ex.count("process_runs_without_result", 1);
            }
            _ => {
                return Some(Violation::new("process_dependence", "json-missing", format!("--json output present and valid for only one of [{}] and [{}]", ref_name, name)));
            }
        }
    }
    None
}

/// Compare `balance`, `balance_m2` and the ratios of two JSON result documents within the tolerance
/// of DESIGN §3.5 (plus the 3-decimal rounding of RenNrenCo2 in JSON).
pub fn json_max_factor(doc: &serde_json::Value) -> f64 {
    let mut max_factor = 1.0f64;
    if let Some(ws) = doc.pointer("/wfactors/wdata").and_then(|v| v.as_array()) {
        for w in ws {
            for k in ["ren", "nren", "co2"] {
                if let Some(v) = w.get(k).and_then(|v| v.as_f64()) {
                    if v.abs() > max_factor {
                        max_factor = v.abs();
                    }
                }
            }
        }
    }
    max_factor
}

pub fn json_balance_mismatch(a: &serde_json::Value, b: &serde_json::Value, sc: &Scale) -> Option<String> {
    let max_factor = json_max_factor(a).max(json_max_factor(b));
    fn walk(path: &str, a: &serde_json::Value, b: &serde_json::Value, tol: f64, out: &mut Option<String>) {
        if out.is_some() {
            return;
        }
        match (a, b) {
            (serde_json::Value::Object(x), serde_json::Value::Object(y)) => {
                let keys: std::collections::BTreeSet<&String> = x.keys().chain(y.keys()).collect();
                for k in keys {
                    let zero = serde_json::Value::from(0.0);
                    let (va, vb) = (x.get(k).unwrap_or(&zero), y.get(k).unwrap_or(&zero));
                    walk(&format!("{}.{}", path, k), va, vb, tol, out);
                }
            }
            (serde_json::Value::Number(x), serde_json::Value::Number(y)) => {
                let (x, y) = (x.as_f64().unwrap_or(f64::NAN), y.as_f64().unwrap_or(f64::NAN));
                if !((x - y).abs() <= tol) {
                    *out = Some(format!("{}: {} vs {} (tol {:e})", path, x, y, tol));
                }
            }
            (serde_json::Value::Null, serde_json::Value::Null) => {}
            (x, y) => {
                if x != y && !(x.is_number() && y.is_object() || x.is_object() && y.is_number()) {
                    *out = Some(format!("{}: {} vs {}", path, x, y));
                }
            }
        }
    }
    let mut out = None;
    let tol = sc.c_abs() * crate::cmp::EPS * sc.e_an.max(sc.n_an) * max_factor + 0.0011;
    if let (Some(x), Some(y)) = (a.get("balance"), b.get("balance")) {
        walk("balance", x, y, tol, &mut out);
    }
    let area = if sc.area > 0.0 { sc.area } else { 1.0 };
    if let (Some(x), Some(y)) = (a.get("balance_m2"), b.get("balance_m2")) {
        walk("balance_m2", x, y, tol / area + 0.0011, &mut out);
    }
    // ratios
    let den = |j: &serde_json::Value| {
        (j.pointer("/balance/we/b/ren").and_then(|v| v.as_f64()).unwrap_or(0.0) + j.pointer("/balance/we/b/nren").and_then(|v| v.as_f64()).unwrap_or(0.0)).abs()
    };
    let d = den(a).min(den(b));
    if out.is_none() && d > crate::cmp::RATIO_MIN_DEN * sc.e_an * max_factor {
        for k in ["rer", "rer_nrb", "rer_onst"] {
            if let (Some(x), Some(y)) = (a.get(k).and_then(|v| v.as_f64()), b.get(k).and_then(|v| v.as_f64())) {
                let rtol = sc.k_long() * crate::cmp::ratio_tol(sc.e_an * max_factor, d, x.abs().max(y.abs()), 0.0011);
                if !((x - y).abs() <= rtol) {
                    out = Some(format!("{}: {} vs {} (tol {:e})", k, x, y, rtol));
                }
            }
        }
    }
    out
}
