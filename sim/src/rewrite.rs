//! Meaning-preserving rewritings of a components file (C10) and scenario shrinking helpers.

use serde::{Deserialize, Serialize};

use crate::gen::{fmt_hundredths, split_hundredths};
use crate::model::*;
use crate::rng::Rng;

#[derive(Clone, Debug, Serialize, Deserialize, PartialEq)]
pub enum RewriteOp {
    /// Permute all lines.
    Permute { seed: u64 },
    /// Split one component into 2..4 lines with the same tags whose values add up to the original.
    Split { seed: u64 },
    /// Renumber system ids by an injective map.
    Renumber { seed: u64 },
    /// Write id 0 explicitly (true) or omit it (false) on CONSUMO / PRODUCCION / AUX lines.
    ZeroId { explicit: bool },
}

/// Decimal token with at most two decimals -> hundredths.
pub fn tok_to_hundredths(t: &str) -> Option<i64> {
    let t = t.trim();
    let (neg, body) = match t.strip_prefix('-') {
        Some(r) => (true, r),
        None => (false, t.strip_prefix('+').unwrap_or(t)),
    };
    if body.is_empty() || !body.chars().all(|c| c.is_ascii_digit() || c == '.') {
        return None;
    }
    let (ip, fp) = match body.split_once('.') {
        Some((a, b)) => (a, b),
        None => (body, ""),
    };
    if fp.len() > 2 || fp.contains('.') || ip.len() > 15 || (ip.is_empty() && fp.is_empty()) {
        return None;
    }
    let i: i64 = if ip.is_empty() { 0 } else { ip.parse().ok()? };
    let f: i64 = match fp.len() {
        0 => 0,
        1 => fp.parse::<i64>().ok()? * 10,
        _ => fp.parse().ok()?,
    };
    let v = i * 100 + f;
    Some(if neg { -v } else { v })
}

const RENUMBER_POOL: [i32; 22] = [
    0, 1, 2, 3, 4, 5, 6, 7, -1, -2, -3, -4, 40000, 99, i32::MAX, i32::MIN, 16_777_216, 16_777_217, 20_000_000, 20_000_001, i32::MAX - 1, i32::MIN + 1,
];

pub fn apply(b: &Building, ops: &[RewriteOp]) -> Building {
    let mut b = b.clone();
    for op in ops {
        match op {
            RewriteOp::Permute { seed } => {
                let mut r = Rng::new(*seed);
                r.shuffle(&mut b.lines);
            }
            RewriteOp::Split { seed } => {
                let mut r = Rng::new(*seed);
                let candidates: Vec<usize> = b
                    .lines
                    .iter()
                    .enumerate()
                    .filter(|(_, l)| {
                        let hs: Vec<Option<i64>> = l.values.iter().map(|t| tok_to_hundredths(t)).collect();
                        hs.iter().all(|h| h.is_some())
                            && (hs.iter().all(|h| h.unwrap() >= 0) || hs.iter().all(|h| h.unwrap() <= 0))
                    })
                    .map(|(i, _)| i)
                    .collect();
                if candidates.is_empty() {
                    continue;
                }
                let li = *r.pick(&candidates);
                let line = b.lines[li].clone();
                let ks: Vec<i64> = line.values.iter().map(|t| tok_to_hundredths(t).unwrap()).collect();
                let n = 2 + r.usize(3);
                let parts = split_hundredths(&mut r, &ks, n);
                b.lines.remove(li);
                for part in parts {
                    let mut nl = line.clone();
                    let style = if r.chance(0.5) { 0 } else { 1 };
                    nl.values = part.iter().map(|&k| fmt_hundredths(k, style)).collect();
                    let pos = if r.chance(0.5) { li.min(b.lines.len()) } else { r.usize(b.lines.len() + 1) };
                    b.lines.insert(pos, nl);
                }
            }
            RewriteOp::Renumber { seed } => {
                let mut r = Rng::new(*seed);
                let ids = b.ids();
                let mut pool = RENUMBER_POOL.to_vec();
                r.shuffle(&mut pool);
                if ids.len() > pool.len() {
                    continue;
                }
                for l in b.lines.iter_mut() {
                    if l.kind.is_need() {
                        continue;
                    }
                    let pos = ids.iter().position(|i| *i == l.id).unwrap();
                    l.id = pool[pos];
                    if l.id != 0 {
                        l.explicit_id = true;
                    }
                }
            }
            RewriteOp::ZeroId { explicit } => {
                for l in b.lines.iter_mut() {
                    if l.id == 0 && matches!(l.kind, Kind::Used { .. } | Kind::Prod { .. } | Kind::Aux) {
                        l.explicit_id = *explicit;
                    }
                }
            }
        }
    }
    b
}

// ---------------------------------------------------------------------------------------------
// Shrinking helpers shared by all properties (DESIGN §3.6)

/// Candidate simplifications of a building, most aggressive first.
pub fn shrink_building(b: &Building) -> Vec<Building> {
    let mut out = Vec::new();
    let ids = b.ids();
    // drop a whole system
    if ids.len() > 1 {
        for id in &ids {
            let mut nb = b.clone();
            nb.lines.retain(|l| l.kind.is_need() || l.id != *id);
            out.push(nb);
        }
    }
    // drop all metadata
    if !b.meta.is_empty() {
        let mut nb = b.clone();
        nb.meta.clear();
        out.push(nb);
    }
    // drop all demands
    if b.lines.iter().any(|l| l.kind.is_need()) {
        let mut nb = b.clone();
        nb.lines.retain(|l| !l.kind.is_need());
        out.push(nb);
    }
    // keep only the first step / drop the last step (all lines together)
    let n = b.lines.iter().map(|l| l.values.len()).max().unwrap_or(0);
    if n > 1 && b.lines.iter().all(|l| l.values.len() == n) {
        for keep in [1, n / 2, n - 1] {
            if keep >= 1 && keep < n {
                let mut nb = b.clone();
                for l in nb.lines.iter_mut() {
                    l.values.truncate(keep);
                }
                out.push(nb);
            }
        }
        // drop the first step
        let mut nb = b.clone();
        for l in nb.lines.iter_mut() {
            l.values.remove(0);
        }
        out.push(nb);
    }
    // drop single lines
    for i in 0..b.lines.len() {
        let mut nb = b.clone();
        nb.lines.remove(i);
        out.push(nb);
    }
    // drop single metadata
    if b.meta.len() > 1 {
        for i in 0..b.meta.len() {
            let mut nb = b.clone();
            nb.meta.remove(i);
            out.push(nb);
        }
    }
    // drop comments
    if b.lines.iter().any(|l| !l.comment.is_empty()) {
        let mut nb = b.clone();
        for l in nb.lines.iter_mut() {
            l.comment.clear();
        }
        out.push(nb);
    }
    // shrink ids to small ones
    for (k, id) in ids.iter().enumerate() {
        let small = k as i32;
        if *id != small && !ids.contains(&small) {
            let mut nb = b.clone();
            for l in nb.lines.iter_mut() {
                if !l.kind.is_need() && l.id == *id {
                    l.id = small;
                    if small != 0 {
                        l.explicit_id = true;
                    }
                }
            }
            out.push(nb);
        }
    }
    // make ids explicit
    if b.lines.iter().any(|l| !l.explicit_id) {
        let mut nb = b.clone();
        for l in nb.lines.iter_mut() {
            l.explicit_id = true;
        }
        out.push(nb);
    }
    // simplify values of one line: all to "1", or to "0"
    for i in 0..b.lines.len() {
        for repl in ["1", "0"] {
            if b.lines[i].values.iter().any(|v| v != repl) {
                let mut nb = b.clone();
                let neg = nb.lines[i].values.iter().any(|v| v.starts_with('-'));
                for v in nb.lines[i].values.iter_mut() {
                    *v = if neg && repl != "0" { format!("-{}", repl) } else { repl.to_string() };
                }
                out.push(nb);
            }
        }
    }
    // simplify single values
    let total_vals: usize = b.lines.iter().map(|l| l.values.len()).sum();
    if total_vals <= 48 {
        for i in 0..b.lines.len() {
            for j in 0..b.lines[i].values.len() {
                let cur = &b.lines[i].values[j];
                for repl in ["0", "1"] {
                    if cur != repl && !(cur.starts_with('-') && repl == "1") {
                        let mut nb = b.clone();
                        nb.lines[i].values[j] = repl.to_string();
                        out.push(nb);
                    }
                }
            }
        }
    }
    out
}

pub fn shrink_layout(l: &Layout) -> Vec<Layout> {
    let mut out = Vec::new();
    let plain = Layout::plain();
    let plain_ref = plain.clone();
    if *l != plain {
        out.push(plain);
    }
    macro_rules! toggle {
        ($field:ident, $val:expr) => {
            if l.$field != plain_ref.$field {
                let mut n = l.clone();
                n.$field = plain_ref.$field.clone();
                out.push(n);
            }
        };
    }
    toggle!(bom, false);
    toggle!(crlf, false);
    toggle!(header, false);
    toggle!(final_newline, true);
    toggle!(seps, Vec::new());
    toggle!(lead, Vec::new());
    toggle!(trail, Vec::new());
    toggle!(extra, Vec::new());
    toggle!(meta_pos, Vec::new());
    toggle!(pad_to, None);
    out
}

pub fn shrink_cfg(c: &EvalCfg) -> Vec<EvalCfg> {
    let mut out = Vec::new();
    if let FactorSpec::File(_) = c.factors {
        let mut n = c.clone();
        n.factors = FactorSpec::Loc("PENINSULA".into());
        out.push(n);
    }
    if let FactorSpec::File(text) = &c.factors {
        let lines: Vec<&str> = text.lines().collect();
        if lines.len() > 1 && lines.len() <= 60 {
            for i in 0..lines.len() {
                let mut keep = lines.clone();
                keep.remove(i);
                let mut n = c.clone();
                n.factors = FactorSpec::File(keep.join("\n") + "\n");
                out.push(n);
            }
        }
    }
    if c.red1.is_some() {
        let mut n = c.clone();
        n.red1 = None;
        out.push(n);
    }
    if c.red2.is_some() {
        let mut n = c.clone();
        n.red2 = None;
        out.push(n);
    }
    if c.load_matching {
        let mut n = c.clone();
        n.load_matching = false;
        out.push(n);
    }
    if c.strip {
        let mut n = c.clone();
        n.strip = false;
        out.push(n);
    }
    if c.k_exp != 0.0 {
        let mut n = c.clone();
        n.k_exp = 0.0;
        out.push(n);
    }
    if c.area != 1.0 {
        let mut n = c.clone();
        n.area = 1.0;
        out.push(n);
    }
    out
}

#[cfg(test)]
mod tests {
    use super::*;
    #[test]
    fn hundredths_roundtrip() {
        assert_eq!(tok_to_hundredths("12.34"), Some(1234));
        assert_eq!(tok_to_hundredths("12"), Some(1200));
        assert_eq!(tok_to_hundredths("12.3"), Some(1230));
        assert_eq!(tok_to_hundredths("-0.05"), Some(-5));
        assert_eq!(tok_to_hundredths("1.234"), None);
        assert_eq!(tok_to_hundredths("1e3"), None);
        assert_eq!(tok_to_hundredths(".5"), Some(50));
    }
}
