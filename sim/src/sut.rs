//! Calls into the real cteepbd library (World L) and flattening of its results.
//!
//! Every call of SUT code goes through `entropy::guard`, so that a panic is an observation, not a
//! harness failure.

use std::collections::BTreeMap;

use cteepbd::{
    cte, energy_performance,
    error::EpbdError,
    types::{EnergyPerformance, RenNrenCo2},
    Components, Factors, UserWF,
};

use crate::entropy::{guard, Panic};
use crate::model::{EvalCfg, FactorSpec};

#[derive(Clone, Copy, Debug, PartialEq, Eq, PartialOrd, Ord, serde::Serialize, serde::Deserialize)]
pub enum ErrKind {
    Parse,
    WrongInput,
    MissingFactor,
}

#[derive(Clone, Debug)]
pub struct SutErr {
    pub kind: ErrKind,
    pub stage: &'static str,
    pub msg: String,
}

pub fn classify(e: &EpbdError) -> ErrKind {
    match e {
        EpbdError::ParseError(_) => ErrKind::Parse,
        EpbdError::WrongInput(_) => ErrKind::WrongInput,
        EpbdError::MissingFactor(_) => ErrKind::MissingFactor,
    }
}

fn wrap<T>(stage: &'static str, r: Result<T, EpbdError>) -> Result<T, SutErr> {
    r.map_err(|e| SutErr { kind: classify(&e), stage, msg: e.to_string() })
}

/// Outcome of a guarded SUT stage: value, typed error, or panic.
pub type Guarded<T> = Result<Result<T, SutErr>, Panic>;

pub fn parse_components(text: &str) -> Guarded<Components> {
    guard(|| wrap("parse_components", text.parse::<Components>()))
}

fn user_wf(cfg: &EvalCfg) -> UserWF<Option<RenNrenCo2>> {
    UserWF {
        red1: cfg.red1.map(|f| RenNrenCo2::new(f[0], f[1], f[2])),
        red2: cfg.red2.map(|f| RenNrenCo2::new(f[0], f[1], f[2])),
    }
}

pub fn make_factors(cfg: &EvalCfg) -> Guarded<Factors> {
    guard(|| match &cfg.factors {
        FactorSpec::Loc(loc) => {
            wrap("wfactors_from_loc", cte::wfactors_from_loc(loc, &cte::CTE_LOCWF_RITE2014, user_wf(cfg), cte::CTE_USERWF))
        }
        FactorSpec::File(text) => wrap("wfactors_from_str", cte::wfactors_from_str(text, user_wf(cfg), cte::CTE_USERWF)),
    })
}

pub fn strip(f: Factors, c: &Components) -> Result<Factors, Panic> {
    guard(|| f.strip(c))
}

pub fn evaluate_parsed(c: &Components, f: &Factors, cfg: &EvalCfg) -> Guarded<EnergyPerformance> {
    guard(|| {
        wrap("energy_performance", energy_performance(c, f, cfg.k_exp, cfg.area, cfg.load_matching))
            .map(cte::incorpora_demanda_renovable_acs_nrb)
    })
}

/// Full pipeline as the CLI runs it: parse, factors, (strip), evaluate, DHW indicator.
pub fn evaluate(text: &str, cfg: &EvalCfg) -> Guarded<(Components, EnergyPerformance)> {
    let c = match parse_components(text)? {
        Ok(c) => c,
        Err(e) => return Ok(Err(e)),
    };
    let f = match make_factors(cfg)? {
        Ok(f) => f,
        Err(e) => return Ok(Err(e)),
    };
    let f = if cfg.strip && !c.data.is_empty() { strip(f, &c)? } else { f };
    match evaluate_parsed(&c, &f, cfg)? {
        Ok(ep) => Ok(Ok((c, ep))),
        Err(e) => Ok(Err(e)),
    }
}

/// Force the one lazily initialised static of the library under a fixed entropy stream, so that no
/// simulated run's behaviour depends on which run happened to initialise it (DESIGN §3.1).
pub fn force_statics() {
    crate::entropy::in_thread(0xC7E_57A7_1C5, || {
        let _ = cte::CTE_LOCWF_RITE2014.len();
    });
}

// ---------------------------------------------------------------------------------------------
// Flattening of results (DESIGN §3.5)

#[derive(Clone, Copy, Debug, PartialEq)]
pub enum Cls {
    /// Annual energy [kWh]
    E,
    /// Energy at step t
    Et(usize),
    /// Annual weighted energy / emissions
    W,
    /// Annual energy per m2
    Em2,
    /// Annual weighted energy per m2
    Wm2,
    /// Dimensionless per-step factor in [0,1] (f_match)
    Unit,
    /// Annual building need (DEMANDA) [kWh] and per m2
    N,
    Nm2,
}

#[derive(Clone, Debug, Default)]
pub struct Flat {
    pub items: BTreeMap<String, (f64, Cls)>,
    pub rer: f64,
    pub rer_nrb: f64,
    pub rer_onst: f64,
    /// denominator of the three ratios: total weighted energy, step B
    pub tot_b: f64,
    pub misc: BTreeMap<String, String>,
    pub max_factor: f64,
    /// Parsed metadata (filled by callers that compare what was declared, C10).
    pub meta: Vec<(String, String)>,
    /// Annual DHW demand, if declared.
    pub dhw_demand: Option<f64>,
    /// Distance of the DHW indicator's two `abs() < 0.01` tests from their threshold (smaller = more
    /// fragile); `None` when the tested quantity does not exist.
    pub dhw_threshold_margin: Option<f64>,
}

struct Fl<'a> {
    out: &'a mut BTreeMap<String, (f64, Cls)>,
}
impl Fl<'_> {
    fn s(&mut self, key: String, v: f32, cls: Cls) {
        self.out.insert(key, (v as f64, cls));
    }
    fn r(&mut self, key: &str, v: &RenNrenCo2, cls: Cls) {
        self.s(format!("{}.ren", key), v.ren, cls);
        self.s(format!("{}.nren", key), v.nren, cls);
        self.s(format!("{}.co2", key), v.co2, cls);
    }
    fn v(&mut self, key: &str, vs: &[f32]) {
        for (t, v) in vs.iter().enumerate() {
            self.s(format!("{}[{}]", key, t), *v, Cls::Et(t));
        }
        self.s(format!("{}.len", key), vs.len() as f32, Cls::Unit);
    }
}

fn flat_balance(f: &mut Fl, p: &str, b: &cteepbd::types::Balance, e: Cls, w: Cls, n: Cls) {
    if let Some(v) = b.needs.ACS {
        f.s(format!("{p}.needs.ACS"), v, n);
    }
    if let Some(v) = b.needs.CAL {
        f.s(format!("{p}.needs.CAL"), v, n);
    }
    if let Some(v) = b.needs.REF {
        f.s(format!("{p}.needs.REF"), v, n);
    }
    f.s(format!("{p}.used.epus"), b.used.epus, e);
    f.s(format!("{p}.used.nepus"), b.used.nepus, e);
    f.s(format!("{p}.used.cgnus"), b.used.cgnus, e);
    for (k, v) in &b.used.epus_by_srv {
        f.s(format!("{p}.used.epus_by_srv.{k}"), *v, e);
    }
    for (k, v) in &b.used.epus_by_cr {
        f.s(format!("{p}.used.epus_by_cr.{k}"), *v, e);
    }
    for (k, m) in &b.used.epus_by_cr_by_srv {
        for (k2, v) in m {
            f.s(format!("{p}.used.epus_by_cr_by_srv.{k}.{k2}"), *v, e);
        }
    }
    f.s(format!("{p}.prod.an"), b.prod.an, e);
    for (k, v) in &b.prod.by_cr {
        f.s(format!("{p}.prod.by_cr.{k}"), *v, e);
    }
    for (k, v) in &b.prod.by_src {
        f.s(format!("{p}.prod.by_src.{k}"), *v, e);
    }
    for (k, v) in &b.prod.epus_by_src {
        f.s(format!("{p}.prod.epus_by_src.{k}"), *v, e);
    }
    for (k, m) in &b.prod.epus_by_srv_by_src {
        for (k2, v) in m {
            f.s(format!("{p}.prod.epus_by_srv_by_src.{k}.{k2}"), *v, e);
        }
    }
    f.s(format!("{p}.del.an"), b.del.an, e);
    f.s(format!("{p}.del.onst"), b.del.onst, e);
    f.s(format!("{p}.del.grid"), b.del.grid, e);
    for (k, v) in &b.del.grid_by_cr {
        f.s(format!("{p}.del.grid_by_cr.{k}"), *v, e);
    }
    f.s(format!("{p}.exp.an"), b.exp.an, e);
    f.s(format!("{p}.exp.grid"), b.exp.grid, e);
    f.s(format!("{p}.exp.nepus"), b.exp.nepus, e);
    f.r(&format!("{p}.we.a"), &b.we.a, w);
    f.r(&format!("{p}.we.b"), &b.we.b, w);
    f.r(&format!("{p}.we.del"), &b.we.del, w);
    f.r(&format!("{p}.we.exp_a"), &b.we.exp_a, w);
    f.r(&format!("{p}.we.exp"), &b.we.exp, w);
    for (k, v) in &b.we.a_by_srv {
        f.r(&format!("{p}.we.a_by_srv.{k}"), v, w);
    }
    for (k, v) in &b.we.b_by_srv {
        f.r(&format!("{p}.we.b_by_srv.{k}"), v, w);
    }
}

pub fn flatten(ep: &EnergyPerformance) -> Flat {
    let mut items = BTreeMap::new();
    {
        let mut f = Fl { out: &mut items };
        flat_balance(&mut f, "balance", &ep.balance, Cls::E, Cls::W, Cls::N);
        flat_balance(&mut f, "balance_m2", &ep.balance_m2, Cls::Em2, Cls::Wm2, Cls::Nm2);
        for (cr, b) in &ep.balance_cr {
            let p = format!("cr.{}", cr);
            f.s(format!("{p}.carrier_matches_key"), if b.carrier == *cr { 1.0 } else { 0.0 }, Cls::Unit);
            for (t, v) in b.f_match.iter().enumerate() {
                f.s(format!("{p}.f_match[{t}]"), *v, Cls::Unit);
            }
            // used
            f.v(&format!("{p}.used.epus_t"), &b.used.epus_t);
            f.v(&format!("{p}.used.nepus_t"), &b.used.nepus_t);
            f.v(&format!("{p}.used.cgnus_t"), &b.used.cgnus_t);
            f.s(format!("{p}.used.epus_an"), b.used.epus_an, Cls::E);
            f.s(format!("{p}.used.nepus_an"), b.used.nepus_an, Cls::E);
            f.s(format!("{p}.used.cgnus_an"), b.used.cgnus_an, Cls::E);
            for (k, v) in &b.used.epus_by_srv_t {
                f.v(&format!("{p}.used.epus_by_srv_t.{k}"), v);
            }
            for (k, v) in &b.used.epus_by_srv_an {
                f.s(format!("{p}.used.epus_by_srv_an.{k}"), *v, Cls::E);
            }
            // prod
            f.v(&format!("{p}.prod.t"), &b.prod.t);
            f.s(format!("{p}.prod.an"), b.prod.an, Cls::E);
            f.v(&format!("{p}.prod.epus_t"), &b.prod.epus_t);
            f.s(format!("{p}.prod.epus_an"), b.prod.epus_an, Cls::E);
            for (k, v) in &b.prod.by_src_t {
                f.v(&format!("{p}.prod.by_src_t.{k}"), v);
            }
            for (k, v) in &b.prod.by_src_an {
                f.s(format!("{p}.prod.by_src_an.{k}"), *v, Cls::E);
            }
            for (k, v) in &b.prod.epus_by_src_t {
                f.v(&format!("{p}.prod.epus_by_src_t.{k}"), v);
            }
            for (k, v) in &b.prod.epus_by_src_an {
                f.s(format!("{p}.prod.epus_by_src_an.{k}"), *v, Cls::E);
            }
            for (k, m) in &b.prod.epus_by_srv_by_src_t {
                for (k2, v) in m {
                    f.v(&format!("{p}.prod.epus_by_srv_by_src_t.{k}.{k2}"), v);
                }
            }
            for (k, m) in &b.prod.epus_by_srv_by_src_an {
                for (k2, v) in m {
                    f.s(format!("{p}.prod.epus_by_srv_by_src_an.{k}.{k2}"), *v, Cls::E);
                }
            }
            // exp
            f.v(&format!("{p}.exp.t"), &b.exp.t);
            f.s(format!("{p}.exp.an"), b.exp.an, Cls::E);
            f.v(&format!("{p}.exp.grid_t"), &b.exp.grid_t);
            f.s(format!("{p}.exp.grid_an"), b.exp.grid_an, Cls::E);
            f.v(&format!("{p}.exp.nepus_t"), &b.exp.nepus_t);
            f.s(format!("{p}.exp.nepus_an"), b.exp.nepus_an, Cls::E);
            for (k, v) in &b.exp.by_src_t {
                f.v(&format!("{p}.exp.by_src_t.{k}"), v);
            }
            for (k, v) in &b.exp.by_src_an {
                f.s(format!("{p}.exp.by_src_an.{k}"), *v, Cls::E);
            }
            // del
            f.s(format!("{p}.del.an"), b.del.an, Cls::E);
            f.v(&format!("{p}.del.grid_t"), &b.del.grid_t);
            f.s(format!("{p}.del.grid_an"), b.del.grid_an, Cls::E);
            f.v(&format!("{p}.del.onst_t"), &b.del.onst_t);
            f.s(format!("{p}.del.onst_an"), b.del.onst_an, Cls::E);
            f.v(&format!("{p}.del.cgn_t"), &b.del.cgn_t);
            f.s(format!("{p}.del.cgn_an"), b.del.cgn_an, Cls::E);
            // we
            let w = &b.we;
            for (name, v) in [
                ("b", &w.b),
                ("a", &w.a),
                ("del", &w.del),
                ("del_grid", &w.del_grid),
                ("del_onst", &w.del_onst),
                ("del_cgn", &w.del_cgn),
                ("exp", &w.exp),
                ("exp_a", &w.exp_a),
                ("exp_nepus_a", &w.exp_nepus_a),
                ("exp_grid_a", &w.exp_grid_a),
                ("exp_nepus_ab", &w.exp_nepus_ab),
                ("exp_grid_ab", &w.exp_grid_ab),
                ("exp_ab", &w.exp_ab),
            ] {
                f.r(&format!("{p}.we.{name}"), v, Cls::W);
            }
            for (k, v) in &w.a_by_srv {
                f.r(&format!("{p}.we.a_by_srv.{k}"), v, Cls::W);
            }
            for (k, v) in &w.b_by_srv {
                f.r(&format!("{p}.we.b_by_srv.{k}"), v, Cls::W);
            }
        }
    }
    let mut max_factor = 1.0f64;
    for wf in &ep.wfactors.wdata {
        for v in [wf.ren, wf.nren, wf.co2] {
            let a = (v as f64).abs();
            if a.is_finite() && a > max_factor {
                max_factor = a;
            }
        }
    }
    let mut misc = BTreeMap::new();
    if let Some(m) = &ep.misc {
        for (k, v) in m.iter() {
            misc.insert(k.clone(), v.clone());
        }
    }
    // DHW indicator: how far its threshold tests (`cte.rs`: `abs() < 0.01` on the non-auxiliary
    // electricity and on the ambient energy used for DHW) are from flipping
    let acs_by_cr = ep.balance.used.epus_by_cr_by_srv.get(&cteepbd::types::Service::ACS);
    let aux_acs: f64 = ep
        .components
        .data
        .iter()
        .filter(|c| c.is_aux() && c.has_service(cteepbd::types::Service::ACS))
        .map(|c| cteepbd::types::HasValues::values_sum(c) as f64)
        .sum();
    let low_scop: f64 = ep
        .components
        .data
        .iter()
        .filter(|c| c.is_used() && c.has_carrier(cteepbd::types::Carrier::EAMBIENTE) && c.comment().contains("CTEEPBD_EXCLUYE_SCOP_ACS"))
        .map(|c| cteepbd::types::HasValues::values_sum(c) as f64)
        .sum();
    let mut margin: Option<f64> = None;
    if let Some(m) = acs_by_cr {
        if let Some(el) = m.get(&cteepbd::types::Carrier::ELECTRICIDAD) {
            let d = ((*el as f64 - aux_acs).abs() - 0.01).abs();
            margin = Some(margin.map_or(d, |x: f64| x.min(d)));
        }
        if let Some(env) = m.get(&cteepbd::types::Carrier::EAMBIENTE) {
            let d = ((*env as f64 - low_scop).abs() - 0.01).abs();
            margin = Some(margin.map_or(d, |x: f64| x.min(d)));
        }
    }
    Flat {
        meta: Vec::new(),
        dhw_demand: ep.balance.needs.ACS.map(|v| v as f64),
        dhw_threshold_margin: margin,
        items,
        rer: ep.rer as f64,
        rer_nrb: ep.rer_nrb as f64,
        rer_onst: ep.rer_onst as f64,
        tot_b: (ep.balance.we.b.ren as f64) + (ep.balance.we.b.nren as f64),
        misc,
        max_factor,
    }
}

/// Observable orders of an evaluation (hash schedules actually realised): order of carriers in
/// `balance_cr`, of services in the by-service maps, of same-id AUX components.
pub fn order_signature(ep: &EnergyPerformance) -> u64 {
    let mut h = crate::rng::Fnv::new();
    for cr in ep.balance_cr.keys() {
        h.str(&cr.to_string());
    }
    for s in ep.balance.used.epus_by_srv.keys() {
        h.str(&s.to_string());
    }
    for s in ep.balance.we.b_by_srv.keys() {
        h.str(&s.to_string());
    }
    for c in &ep.components.data {
        if c.is_aux() {
            h.u64(c.id() as u64);
            h.str(&c.service().to_string());
        }
    }
    h.finish()
}

/// Bit-level digest of the whole-building totals (distinct rounding outcomes across schedules).
pub fn totals_bits(ep: &EnergyPerformance) -> u64 {
    let mut h = crate::rng::Fnv::new();
    let b = &ep.balance;
    for v in [
        b.used.epus, b.used.nepus, b.prod.an, b.del.an, b.del.grid, b.exp.an, b.we.a.ren, b.we.a.nren, b.we.a.co2, b.we.b.ren,
        b.we.b.nren, b.we.b.co2, ep.rer, ep.rer_nrb, ep.rer_onst,
    ] {
        h.f32(v);
    }
    h.finish()
}
