//! Strict XML 1.0 well-formedness scanner (no DTD support: a DOCTYPE is reported as unsupported).
//! Used as the oracle for "the XML is well-formed for any comment or metadata text" (C17); its
//! verdicts are cross-checked against Python's expat by `/verif/tools/xml_crosscheck.py`.

#[derive(Debug, Clone, PartialEq)]
pub struct XmlError {
    pub pos: usize,
    pub what: String,
}

#[derive(Debug, Clone, PartialEq)]
pub struct Element {
    /// Path from the root, e.g. "BalanceEPB/Componentes/Consumo/Id".
    pub path: String,
    /// Concatenated character data directly inside the element (references resolved).
    pub text: String,
}

fn legal_char(c: char) -> bool {
    matches!(c as u32, 0x9 | 0xA | 0xD | 0x20..=0xD7FF | 0xE000..=0xFFFD | 0x10000..=0x10FFFF)
}

fn name_start(c: char) -> bool {
    c == ':'
        || c == '_'
        || c.is_ascii_alphabetic()
        || matches!(c as u32, 0xC0..=0xD6 | 0xD8..=0xF6 | 0xF8..=0x2FF | 0x370..=0x37D | 0x37F..=0x1FFF | 0x200C..=0x200D | 0x2070..=0x218F
            | 0x2C00..=0x2FEF | 0x3001..=0xD7FF | 0xF900..=0xFDCF | 0xFDF0..=0xFFFD | 0x10000..=0xEFFFF)
}

fn name_char(c: char) -> bool {
    name_start(c) || c == '-' || c == '.' || c.is_ascii_digit() || matches!(c as u32, 0xB7 | 0x300..=0x36F | 0x203F..=0x2040)
}

struct P<'a> {
    s: &'a str,
    chars: Vec<(usize, char)>,
    i: usize,
}

impl<'a> P<'a> {
    fn peek(&self) -> Option<char> {
        self.chars.get(self.i).map(|x| x.1)
    }
    fn pos(&self) -> usize {
        self.chars.get(self.i).map(|x| x.0).unwrap_or(self.s.len())
    }
    fn starts_with(&self, lit: &str) -> bool {
        self.s[self.pos()..].starts_with(lit)
    }
    fn advance(&mut self, n_chars: usize) {
        self.i += n_chars;
    }
    fn err<T>(&self, what: impl Into<String>) -> Result<T, XmlError> {
        Err(XmlError { pos: self.pos(), what: what.into() })
    }
    fn skip_ws(&mut self) {
        while matches!(self.peek(), Some(' ' | '\t' | '\n' | '\r')) {
            self.i += 1;
        }
    }
    fn name(&mut self) -> Result<String, XmlError> {
        let mut n = String::new();
        match self.peek() {
            Some(c) if name_start(c) => {
                n.push(c);
                self.i += 1;
            }
            _ => return self.err("expected a name"),
        }
        while let Some(c) = self.peek() {
            if name_char(c) {
                n.push(c);
                self.i += 1;
            } else {
                break;
            }
        }
        Ok(n)
    }
    /// After '&': parse a reference, return the character(s) it stands for.
    fn reference(&mut self) -> Result<String, XmlError> {
        // self.peek() == '&'
        self.i += 1;
        if self.peek() == Some('#') {
            self.i += 1;
            let hex = self.peek() == Some('x');
            if hex {
                self.i += 1;
            }
            let mut digits = String::new();
            while let Some(c) = self.peek() {
                if c == ';' {
                    break;
                }
                digits.push(c);
                self.i += 1;
                if digits.len() > 8 {
                    return self.err("character reference too long");
                }
            }
            if self.peek() != Some(';') || digits.is_empty() {
                return self.err("malformed character reference");
            }
            self.i += 1;
            let v = u32::from_str_radix(&digits, if hex { 16 } else { 10 }).map_err(|_| XmlError { pos: self.pos(), what: "bad digits in character reference".into() })?;
            match char::from_u32(v) {
                Some(c) if legal_char(c) => Ok(c.to_string()),
                _ => self.err(format!("character reference to illegal character #x{:X}", v)),
            }
        } else {
            let n = match self.name() {
                Ok(n) => n,
                Err(_) => return self.err("'&' not followed by a reference"),
            };
            if self.peek() != Some(';') {
                return self.err("entity reference without ';'");
            }
            self.i += 1;
            match n.as_str() {
                "amp" => Ok("&".into()),
                "lt" => Ok("<".into()),
                "gt" => Ok(">".into()),
                "apos" => Ok("'".into()),
                "quot" => Ok("\"".into()),
                other => self.err(format!("reference to undeclared entity &{};", other)),
            }
        }
    }
    fn comment(&mut self) -> Result<(), XmlError> {
        // at "<!--"
        self.advance(4);
        loop {
            if self.starts_with("-->") {
                self.advance(3);
                return Ok(());
            }
            if self.starts_with("--") {
                return self.err("'--' inside a comment");
            }
            match self.peek() {
                None => return self.err("unterminated comment"),
                Some(c) if !legal_char(c) => return self.err(format!("illegal character U+{:04X} in comment", c as u32)),
                Some(_) => self.i += 1,
            }
        }
    }
    fn pi(&mut self) -> Result<(), XmlError> {
        // at "<?"
        self.advance(2);
        let target = self.name()?;
        if target.eq_ignore_ascii_case("xml") && self.pos() > 5 {
            return self.err("XML declaration not at the start of the document");
        }
        loop {
            if self.starts_with("?>") {
                self.advance(2);
                return Ok(());
            }
            match self.peek() {
                None => return self.err("unterminated processing instruction"),
                Some(c) if !legal_char(c) => return self.err("illegal character in processing instruction"),
                Some(_) => self.i += 1,
            }
        }
    }
}

/// Check well-formedness; on success return the elements in document order (path + own text).
pub fn check(doc: &str) -> Result<Vec<Element>, XmlError> {
    let mut p = P { s: doc, chars: doc.char_indices().collect(), i: 0 };
    if p.peek() == Some('\u{feff}') {
        p.i += 1;
    }
    let mut stack: Vec<(String, usize)> = Vec::new(); // (name, index into elements)
    let mut elements: Vec<Element> = Vec::new();
    let mut root_seen = false;
    let mut root_closed = false;
    loop {
        let c = match p.peek() {
            None => break,
            Some(c) => c,
        };
        if c == '<' {
            if p.starts_with("<!--") {
                p.comment()?;
            } else if p.starts_with("<?") {
                p.pi()?;
            } else if p.starts_with("<![CDATA[") {
                if stack.is_empty() {
                    return p.err("CDATA section outside the root element");
                }
                p.advance(9);
                let mut text = String::new();
                loop {
                    if p.starts_with("]]>") {
                        p.advance(3);
                        break;
                    }
                    match p.peek() {
                        None => return p.err("unterminated CDATA section"),
                        Some(c) if !legal_char(c) => return p.err("illegal character in CDATA section"),
                        Some(c) => {
                            text.push(c);
                            p.i += 1;
                        }
                    }
                }
                let idx = stack.last().unwrap().1;
                elements[idx].text.push_str(&text);
            } else if p.starts_with("<!") {
                return p.err("markup declaration (DOCTYPE etc.) not supported / not expected");
            } else if p.starts_with("</") {
                p.advance(2);
                let n = p.name()?;
                p.skip_ws();
                if p.peek() != Some('>') {
                    return p.err("malformed end tag");
                }
                p.i += 1;
                match stack.pop() {
                    Some((open, _)) if open == n => {}
                    Some((open, _)) => return p.err(format!("end tag </{}> does not match open element <{}>", n, open)),
                    None => return p.err(format!("end tag </{}> without open element", n)),
                }
                if stack.is_empty() {
                    root_closed = true;
                }
            } else {
                // start tag or empty-element tag
                if root_closed {
                    return p.err("more than one root element");
                }
                p.i += 1;
                let n = p.name()?;
                let mut attrs: Vec<String> = Vec::new();
                let mut empty = false;
                loop {
                    let had_ws = matches!(p.peek(), Some(' ' | '\t' | '\n' | '\r'));
                    p.skip_ws();
                    match p.peek() {
                        Some('>') => {
                            p.i += 1;
                            break;
                        }
                        Some('/') => {
                            p.i += 1;
                            if p.peek() != Some('>') {
                                return p.err("'/' not followed by '>' in tag");
                            }
                            p.i += 1;
                            empty = true;
                            break;
                        }
                        Some(_) => {
                            if !had_ws {
                                return p.err("missing whitespace before attribute");
                            }
                            let an = p.name()?;
                            if attrs.contains(&an) {
                                return p.err(format!("duplicate attribute {}", an));
                            }
                            p.skip_ws();
                            if p.peek() != Some('=') {
                                return p.err("attribute without '='");
                            }
                            p.i += 1;
                            p.skip_ws();
                            let q = match p.peek() {
                                Some(q @ ('"' | '\'')) => q,
                                _ => return p.err("attribute value not quoted"),
                            };
                            p.i += 1;
                            loop {
                                match p.peek() {
                                    None => return p.err("unterminated attribute value"),
                                    Some(c) if c == q => {
                                        p.i += 1;
                                        break;
                                    }
                                    Some('<') => return p.err("'<' in attribute value"),
                                    Some('&') => {
                                        p.reference()?;
                                    }
                                    Some(c) if !legal_char(c) => return p.err("illegal character in attribute value"),
                                    Some(_) => p.i += 1,
                                }
                            }
                            attrs.push(an);
                        }
                        None => return p.err("unterminated start tag"),
                    }
                }
                root_seen = true;
                let path = if let Some((_, idx)) = stack.last() { format!("{}/{}", elements[*idx].path, n) } else { n.clone() };
                elements.push(Element { path, text: String::new() });
                if empty {
                    if stack.is_empty() {
                        root_closed = true;
                    }
                } else {
                    stack.push((n, elements.len() - 1));
                }
            }
        } else if stack.is_empty() {
            // outside the root: only whitespace
            if matches!(c, ' ' | '\t' | '\n' | '\r') {
                p.i += 1;
            } else {
                return p.err(if root_seen { "character data after the root element" } else { "character data before the root element" });
            }
        } else if c == '&' {
            let r = p.reference()?;
            let idx = stack.last().unwrap().1;
            elements[idx].text.push_str(&r);
        } else {
            if !legal_char(c) {
                return p.err(format!("illegal character U+{:04X} in character data", c as u32));
            }
            if c == ']' && p.starts_with("]]>") {
                return p.err("']]>' in character data");
            }
            let idx = stack.last().unwrap().1;
            elements[idx].text.push(c);
            p.i += 1;
        }
    }
    if let Some((open, _)) = stack.last() {
        return p.err(format!("element <{}> is never closed", open));
    }
    if !root_seen {
        return p.err("no root element");
    }
    Ok(elements)
}

#[cfg(test)]
mod tests {
    use super::*;
    #[test]
    fn accepts_and_rejects() {
        assert!(check("<a><b>x &amp; y</b><c/></a>").is_ok());
        assert!(check("<a>\n<!-- c --><b k=\"v\">&#x20AC;</b></a>\n").is_ok());
        assert!(check("<a><b></a>").is_err());
        assert!(check("<a>").is_err());
        assert!(check("<a/><b/>").is_err());
        assert!(check("<a>x & y</a>").is_err());
        assert!(check("<a>x < y</a>").is_err());
        assert!(check("<a>\u{1}</a>").is_err());
        assert!(check("<a>&foo;</a>").is_err());
        assert!(check("<a>]]></a>").is_err());
        assert!(check("<a><!-- -- --></a>").is_err());
        assert!(check("text").is_err());
        assert!(check("").is_err());
        let els = check("<r><x>1</x><x>2 &lt;</x></r>").unwrap();
        assert_eq!(els[1].path, "r/x");
        assert_eq!(els[2].text, "2 <");
    }
}
