/*
 * iofault.so - LD_PRELOAD shim for the process world of cteepbd-sim (DESIGN 3.1, seams S1 and S3).
 *
 * S1: getrandom() is served from a PRNG seeded by VERIF_ENTROPY, so the hash-iteration schedule of
 *     the whole process is decided by the simulator.
 * S3: open/open64/openat, read, write, close on *tracked* files are counted (one global index over all
 *     tracked calls), looked up in a fault plan and logged to a trace. A file is tracked when its
 *     path is relative (the simulator runs the SUT with the simulated disk as working directory and
 *     names every file relatively) or lies under VERIF_ROOT. Descriptors 0/1/2 and everything else
 *     pass through untouched.
 *
 * The shim draws no random numbers for faults: plan + entropy seed + disk image + argv describe an
 * incarnation completely.
 *
 * Plan file (VERIF_PLAN), one entry per line:  <index> <kind> [<arg>]
 *   eintr          fail the call with EINTR without performing it
 *   short <n>      perform read/write with the count cut to n bytes (n >= 1)
 *   err <errno>    fail the call with <errno> without performing it
 *   crash          _exit(137) before performing the call
 *   eof            read() returns 0 without reading: the file ends before its announced size
 * Trace file (VERIF_TRACE), one line per tracked call:
 *   <index> <call> <fd> <path-or-dash> <requested> <result> <errno> <fault-or-dash>
 */
#define _GNU_SOURCE
#include <dlfcn.h>
#include <errno.h>
#include <fcntl.h>
#include <stdarg.h>
#include <stdint.h>
#include <stdio.h>
#include <stdlib.h>
#include <string.h>
#include <sys/syscall.h>
#include <sys/types.h>
#include <unistd.h>

#define MAX_FD 4096
#define MAX_PLAN 256

enum kind { K_NONE = 0, K_EINTR, K_SHORT, K_ERR, K_CRASH, K_EOF };

struct entry {
    long idx;
    enum kind kind;
    long arg;
};

static int initialised = 0;
static int active = 0; /* plan/trace machinery on */
static char tracked[MAX_FD];
static char at_eof[MAX_FD]; /* a delivered premature end of file persists for the descriptor */
#define MAX_TRACE_LINES 20000
static long trace_lines = 0;
static struct entry plan[MAX_PLAN];
static int plan_len = 0;
static long call_index = 0;
static int trace_fd = -1;
static const char *root = NULL;
static size_t root_len = 0;

static int entropy_on = 0;
static uint64_t entropy_state = 0;

static int (*real_open)(const char *, int, ...) = NULL;
static int (*real_open64)(const char *, int, ...) = NULL;
static int (*real_openat)(int, const char *, int, ...) = NULL;
static ssize_t (*real_read)(int, void *, size_t) = NULL;
static ssize_t (*real_write)(int, const void *, size_t) = NULL;
static int (*real_close)(int) = NULL;
static ssize_t (*real_getrandom)(void *, size_t, unsigned int) = NULL;

static uint64_t splitmix(uint64_t *s) {
    uint64_t z = (*s += 0x9E3779B97F4A7C15ULL);
    z = (z ^ (z >> 30)) * 0xBF58476D1CE4E5B9ULL;
    z = (z ^ (z >> 27)) * 0x94D049BB133111EBULL;
    return z ^ (z >> 31);
}

static void raw_write_all(int fd, const char *buf, size_t len) {
    while (len > 0) {
        long r = syscall(SYS_write, fd, buf, len);
        if (r <= 0) {
            if (r < 0 && errno == EINTR) continue;
            return;
        }
        buf += r;
        len -= (size_t)r;
    }
}

static void init(void) {
    if (initialised) return;
    initialised = 1;
    real_open = dlsym(RTLD_NEXT, "open");
    real_open64 = dlsym(RTLD_NEXT, "open64");
    real_openat = dlsym(RTLD_NEXT, "openat");
    real_read = dlsym(RTLD_NEXT, "read");
    real_write = dlsym(RTLD_NEXT, "write");
    real_close = dlsym(RTLD_NEXT, "close");
    real_getrandom = dlsym(RTLD_NEXT, "getrandom");

    const char *e = getenv("VERIF_ENTROPY");
    if (e && *e) {
        entropy_on = 1;
        entropy_state = strtoull(e, NULL, 10) ^ 0xE17A0F5C3B2D9A41ULL;
    }
    root = getenv("VERIF_ROOT");
    root_len = root ? strlen(root) : 0;
    const char *tp = getenv("VERIF_TRACE");
    if (tp && *tp) {
        trace_fd = (int)syscall(SYS_openat, AT_FDCWD, tp, O_WRONLY | O_CREAT | O_APPEND | O_CLOEXEC, 0644);
        active = 1;
    }
    const char *pp = getenv("VERIF_PLAN");
    if (pp && *pp) {
        int fd = (int)syscall(SYS_openat, AT_FDCWD, pp, O_RDONLY | O_CLOEXEC, 0);
        if (fd >= 0) {
            static char buf[16384];
            long n = 0, r;
            while ((r = syscall(SYS_read, fd, buf + n, sizeof(buf) - 1 - (size_t)n)) > 0) n += r;
            buf[n] = 0;
            syscall(SYS_close, fd);
            char *save = NULL;
            for (char *line = strtok_r(buf, "\n", &save); line && plan_len < MAX_PLAN; line = strtok_r(NULL, "\n", &save)) {
                long idx = -1, arg = 0;
                char kind[32] = {0};
                int got = sscanf(line, "%ld %31s %ld", &idx, kind, &arg);
                if (got < 2 || idx < 0) continue;
                struct entry en = {idx, K_NONE, arg};
                if (!strcmp(kind, "eintr")) en.kind = K_EINTR;
                else if (!strcmp(kind, "short")) en.kind = K_SHORT;
                else if (!strcmp(kind, "err")) en.kind = K_ERR;
                else if (!strcmp(kind, "crash")) en.kind = K_CRASH;
                else if (!strcmp(kind, "eof")) en.kind = K_EOF;
                if (en.kind != K_NONE) plan[plan_len++] = en;
            }
            active = 1;
        }
    }
}

static int path_tracked(const char *path) {
    if (!active || !path) return 0;
    if (path[0] != '/') return 1;
    if (root && root_len > 0 && !strncmp(path, root, root_len)) return 1;
    return 0;
}

static struct entry *lookup(long idx) {
    for (int i = 0; i < plan_len; i++)
        if (plan[i].idx == idx) return &plan[i];
    return NULL;
}

static void trace(long idx, const char *call, int fd, const char *path, long req, long res, int err, const char *fault) {
    if (trace_fd < 0) return;
    if (++trace_lines > MAX_TRACE_LINES) return; /* a spinning SUT must not fill the disk with trace */
    char line[768];
    int n = snprintf(line, sizeof line, "%ld %s %d %s %ld %ld %d %s\n", idx, call, fd, path ? path : "-", req, res, err, fault ? fault : "-");
    if (n > 0) raw_write_all(trace_fd, line, (size_t)(n < (int)sizeof line ? n : (int)sizeof line - 1));
}

static void crash_now(long idx, const char *call, int fd, const char *path, long req) {
    trace(idx, call, fd, path, req, -1, 0, "crash");
    _exit(137);
}

/* ---- S1: entropy ---------------------------------------------------------------------- */

ssize_t getrandom(void *buf, size_t len, unsigned int flags) {
    init();
    if (!entropy_on) {
        if (real_getrandom) return real_getrandom(buf, len, flags);
        return syscall(SYS_getrandom, buf, len, flags);
    }
    unsigned char *p = buf;
    size_t i = 0;
    while (i < len) {
        uint64_t v = splitmix(&entropy_state);
        for (int k = 0; k < 8 && i < len; k++, i++) p[i] = (unsigned char)(v >> (8 * k));
    }
    return (ssize_t)len;
}

/* ---- S3: tracked file system calls ------------------------------------------------------ */

static int do_open(const char *call, int dirfd, const char *path, int flags, mode_t mode, int use64) {
    init();
    if (!path_tracked(path) || (dirfd != AT_FDCWD && path[0] != '/')) {
        if (dirfd != AT_FDCWD || !strcmp(call, "openat")) return real_openat(dirfd, path, flags, mode);
        return use64 ? real_open64(path, flags, mode) : real_open(path, flags, mode);
    }
    long idx = call_index++;
    struct entry *en = lookup(idx);
    if (en) {
        if (en->kind == K_CRASH) crash_now(idx, call, -1, path, flags);
        if (en->kind == K_EINTR || en->kind == K_ERR) {
            int e = en->kind == K_EINTR ? EINTR : (int)en->arg;
            trace(idx, call, -1, path, flags, -1, e, en->kind == K_EINTR ? "eintr" : "err");
            errno = e;
            return -1;
        }
    }
    int fd = real_openat(AT_FDCWD, path, flags | (use64 ? O_LARGEFILE : 0), mode);
    int e = errno;
    if (fd >= 0 && fd < MAX_FD) tracked[fd] = 1;
    trace(idx, call, fd, path, flags, fd, fd < 0 ? e : 0, NULL);
    errno = e;
    return fd;
}

int open(const char *path, int flags, ...) {
    mode_t mode = 0;
    if (flags & (O_CREAT | O_TMPFILE)) {
        va_list ap;
        va_start(ap, flags);
        mode = (mode_t)va_arg(ap, int);
        va_end(ap);
    }
    return do_open("open", AT_FDCWD, path, flags, mode, 0);
}

int open64(const char *path, int flags, ...) {
    mode_t mode = 0;
    if (flags & (O_CREAT | O_TMPFILE)) {
        va_list ap;
        va_start(ap, flags);
        mode = (mode_t)va_arg(ap, int);
        va_end(ap);
    }
    return do_open("open", AT_FDCWD, path, flags, mode, 1);
}

int openat(int dirfd, const char *path, int flags, ...) {
    mode_t mode = 0;
    if (flags & (O_CREAT | O_TMPFILE)) {
        va_list ap;
        va_start(ap, flags);
        mode = (mode_t)va_arg(ap, int);
        va_end(ap);
    }
    return do_open("openat", dirfd, path, flags, mode, 0);
}

ssize_t read(int fd, void *buf, size_t count) {
    init();
    if (fd < 0 || fd >= MAX_FD || !tracked[fd]) return real_read(fd, buf, count);
    long idx = call_index++;
    struct entry *en = lookup(idx);
    size_t want = count;
    const char *fault = NULL;
    if (at_eof[fd]) {
        trace(idx, "read", fd, NULL, (long)count, 0, 0, "eof");
        return 0;
    }
    if (en) {
        if (en->kind == K_CRASH) crash_now(idx, "read", fd, NULL, (long)count);
        if (en->kind == K_EINTR || en->kind == K_ERR) {
            int e = en->kind == K_EINTR ? EINTR : (int)en->arg;
            trace(idx, "read", fd, NULL, (long)count, -1, e, en->kind == K_EINTR ? "eintr" : "err");
            errno = e;
            return -1;
        }
        if (en->kind == K_EOF) {
            /* premature end of file: the file was cut short after it was opened */
            trace(idx, "read", fd, NULL, (long)count, 0, 0, "eof");
            at_eof[fd] = 1;
            return 0;
        }
        if (en->kind == K_SHORT && en->arg >= 1 && (size_t)en->arg < count) {
            want = (size_t)en->arg;
            fault = "short";
        }
    }
    ssize_t r = real_read(fd, buf, want);
    int e = errno;
    /* a shortened read only counts as delivered if it actually returned fewer bytes than were available */
    trace(idx, "read", fd, NULL, (long)count, (long)r, r < 0 ? e : 0, (fault && r == (ssize_t)want) ? fault : NULL);
    errno = e;
    return r;
}

ssize_t write(int fd, const void *buf, size_t count) {
    init();
    if (fd < 0 || fd >= MAX_FD || !tracked[fd]) return real_write(fd, buf, count);
    long idx = call_index++;
    struct entry *en = lookup(idx);
    size_t want = count;
    const char *fault = NULL;
    if (en) {
        if (en->kind == K_CRASH) crash_now(idx, "write", fd, NULL, (long)count);
        if (en->kind == K_EINTR || en->kind == K_ERR) {
            int e = en->kind == K_EINTR ? EINTR : (int)en->arg;
            trace(idx, "write", fd, NULL, (long)count, -1, e, en->kind == K_EINTR ? "eintr" : "err");
            errno = e;
            return -1;
        }
        if (en->kind == K_SHORT && en->arg >= 1 && (size_t)en->arg < count) {
            want = (size_t)en->arg;
            fault = "short";
        }
    }
    ssize_t r = real_write(fd, buf, want);
    int e = errno;
    trace(idx, "write", fd, NULL, (long)count, (long)r, r < 0 ? e : 0, fault);
    errno = e;
    return r;
}

int close(int fd) {
    init();
    if (fd < 0 || fd >= MAX_FD || !tracked[fd]) return real_close(fd);
    long idx = call_index++;
    struct entry *en = lookup(idx);
    if (en && en->kind == K_CRASH) crash_now(idx, "close", fd, NULL, 0);
    tracked[fd] = 0;
    at_eof[fd] = 0;
    int r = real_close(fd);
    int e = errno;
    trace(idx, "close", fd, NULL, 0, r, r < 0 ? e : 0, NULL);
    errno = e;
    return r;
}
