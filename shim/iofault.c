/*
 * iofault.so - LD_PRELOAD shim for the process world of cteepbd-sim (DESIGN 3.1, seams S1 and S3).
 *
 * S1: getrandom() is served from a PRNG seeded by VERIF_ENTROPY, so the hash-iteration schedule of
 *     the whole process is decided by the simulator.
 * S3: open/open64/openat, read, write, close on *tracked* files are counted (one global index over all
 *     tracked calls), looked up in a fault plan and logged to a trace. A file is tracked when its
 *     path is relative (the simulator runs the SUT with the simulated disk as working directory and
 *     names every file relatively) or lies under VERIF_ROOT. Descriptors 0/1/2 and everything else
 *     pass through untouched.
 *
 * The shim draws no random numbers for faults: plan + entropy seed + disk image + argv describe an
 * incarnation completely.
 *
 * Plan file (VERIF_PLAN), one entry per line:  <index> <kind> [<arg>]
 *   eintr          fail the call with EINTR without performing it
 *   short <n>      perform read/write with the count cut to n bytes (n >= 1)
 *   err <errno>    fail the call with <errno> without performing it
 *   crash          _exit(137) before performing the call
 *   eof            read() returns 0 without reading: the file ends before its announced size
 *   quota <bytes>  (index ignored) the simulated disk takes <bytes> more bytes in all, over all tracked
 *                  writes of the incarnation; the write that crosses the limit is cut short, every later
 *                  one fails with ENOSPC (a disk that fills up and stays full)
 * Status calls on tracked descriptors (statx, fstat) have an index space of their own, the k-th such call:
 *   statsize <k> <size>   report st_size = <size> (the file grows or shrinks between stat and read;
 *                         procfs-like files announce 0)
 *   staterr <k> <errno>   fail the call
 * readv/writev/pread/pwrite on tracked descriptors count as read/write; rename, unlink, ftruncate, fsync and
 * fdatasync on tracked files are traced and can be failed with `err` (they are calls of the common index
 * space; the unchanged program makes none of them).
 * Trace file (VERIF_TRACE), one line per tracked call:
 *   <index> <call> <fd> <path-or-dash> <requested> <result> <errno> <fault-or-dash>
 */
#define _GNU_SOURCE
#include <dlfcn.h>
#include <errno.h>
#include <fcntl.h>
#include <pthread.h>
#include <signal.h>
#include <stdarg.h>
#include <stdint.h>
#include <stdio.h>
#include <stdlib.h>
#include <string.h>
#include <sys/stat.h>
#include <sys/syscall.h>
#include <sys/types.h>
#include <sys/uio.h>
#include <unistd.h>

#define MAX_FD 4096
#define MAX_PLAN 256

enum kind { K_NONE = 0, K_EINTR, K_SHORT, K_ERR, K_CRASH, K_EOF, K_STATSIZE, K_STATERR };

struct entry {
    long idx;
    enum kind kind;
    long arg;
};

static int initialised = 0;
static int active = 0; /* plan/trace machinery on */
static char tracked[MAX_FD];
static char at_eof[MAX_FD]; /* a delivered premature end of file persists for the descriptor */
#define MAX_TRACE_LINES 20000
static long trace_lines = 0;
static struct entry plan[MAX_PLAN];
static int plan_len = 0;
static long call_index = 0;
static long stat_index = 0;
static long quota_left = -1; /* < 0: no quota */
static int disk_full = 0;
static int trace_fd = -1;
static const char *root = NULL;
static size_t root_len = 0;

static int entropy_on = 0;
static uint64_t entropy_state = 0;

static int (*real_open)(const char *, int, ...) = NULL;
static int (*real_open64)(const char *, int, ...) = NULL;
static int (*real_openat)(int, const char *, int, ...) = NULL;
static ssize_t (*real_read)(int, void *, size_t) = NULL;
static ssize_t (*real_write)(int, const void *, size_t) = NULL;
static int (*real_close)(int) = NULL;
static ssize_t (*real_getrandom)(void *, size_t, unsigned int) = NULL;
static int (*real_statx)(int, const char *, int, unsigned int, struct statx *) = NULL;
static int (*real_fstat)(int, struct stat *) = NULL;
static int (*real_fstat64)(int, struct stat64 *) = NULL;
static ssize_t (*real_readv)(int, const struct iovec *, int) = NULL;
static ssize_t (*real_writev)(int, const struct iovec *, int) = NULL;
static ssize_t (*real_pread)(int, void *, size_t, off_t) = NULL;
static ssize_t (*real_pwrite)(int, const void *, size_t, off_t) = NULL;
static int (*real_rename)(const char *, const char *) = NULL;
static int (*real_unlink)(const char *) = NULL;
static int (*real_ftruncate)(int, off_t) = NULL;
static int (*real_fsync)(int) = NULL;
static int (*real_fdatasync)(int) = NULL;

static uint64_t splitmix(uint64_t *s) {
    uint64_t z = (*s += 0x9E3779B97F4A7C15ULL);
    z = (z ^ (z >> 30)) * 0xBF58476D1CE4E5B9ULL;
    z = (z ^ (z >> 27)) * 0x94D049BB133111EBULL;
    return z ^ (z >> 31);
}

static void raw_write_all(int fd, const char *buf, size_t len) {
    while (len > 0) {
        long r = syscall(SYS_write, fd, buf, len);
        if (r <= 0) {
            if (r < 0 && errno == EINTR) continue;
            return;
        }
        buf += r;
        len -= (size_t)r;
    }
}

static void init(void) {
    if (initialised) return;
    initialised = 1;
    real_open = dlsym(RTLD_NEXT, "open");
    real_open64 = dlsym(RTLD_NEXT, "open64");
    real_openat = dlsym(RTLD_NEXT, "openat");
    real_read = dlsym(RTLD_NEXT, "read");
    real_write = dlsym(RTLD_NEXT, "write");
    real_close = dlsym(RTLD_NEXT, "close");
    real_getrandom = dlsym(RTLD_NEXT, "getrandom");
    real_statx = dlsym(RTLD_NEXT, "statx");
    real_fstat = dlsym(RTLD_NEXT, "fstat");
    real_fstat64 = dlsym(RTLD_NEXT, "fstat64");
    real_readv = dlsym(RTLD_NEXT, "readv");
    real_writev = dlsym(RTLD_NEXT, "writev");
    real_pread = dlsym(RTLD_NEXT, "pread64");
    real_pwrite = dlsym(RTLD_NEXT, "pwrite64");
    real_rename = dlsym(RTLD_NEXT, "rename");
    real_unlink = dlsym(RTLD_NEXT, "unlink");
    real_ftruncate = dlsym(RTLD_NEXT, "ftruncate64");
    real_fsync = dlsym(RTLD_NEXT, "fsync");
    real_fdatasync = dlsym(RTLD_NEXT, "fdatasync");

    const char *e = getenv("VERIF_ENTROPY");
    if (e && *e) {
        entropy_on = 1;
        entropy_state = strtoull(e, NULL, 10) ^ 0xE17A0F5C3B2D9A41ULL;
    }
    root = getenv("VERIF_ROOT");
    root_len = root ? strlen(root) : 0;
    const char *tp = getenv("VERIF_TRACE");
    if (tp && *tp) {
        trace_fd = (int)syscall(SYS_openat, AT_FDCWD, tp, O_WRONLY | O_CREAT | O_APPEND | O_CLOEXEC, 0644);
        active = 1;
    }
    const char *pp = getenv("VERIF_PLAN");
    if (pp && *pp) {
        int fd = (int)syscall(SYS_openat, AT_FDCWD, pp, O_RDONLY | O_CLOEXEC, 0);
        if (fd >= 0) {
            static char buf[16384];
            long n = 0, r;
            while ((r = syscall(SYS_read, fd, buf + n, sizeof(buf) - 1 - (size_t)n)) > 0) n += r;
            buf[n] = 0;
            syscall(SYS_close, fd);
            char *save = NULL;
            for (char *line = strtok_r(buf, "\n", &save); line && plan_len < MAX_PLAN; line = strtok_r(NULL, "\n", &save)) {
                long idx = -1, arg = 0;
                char kind[32] = {0};
                int got = sscanf(line, "%ld %31s %ld", &idx, kind, &arg);
                if (got < 2 || idx < 0) continue;
                struct entry en = {idx, K_NONE, arg};
                if (!strcmp(kind, "eintr")) en.kind = K_EINTR;
                else if (!strcmp(kind, "short")) en.kind = K_SHORT;
                else if (!strcmp(kind, "err")) en.kind = K_ERR;
                else if (!strcmp(kind, "crash")) en.kind = K_CRASH;
                else if (!strcmp(kind, "eof")) en.kind = K_EOF;
                else if (!strcmp(kind, "statsize")) en.kind = K_STATSIZE;
                else if (!strcmp(kind, "staterr")) en.kind = K_STATERR;
                else if (!strcmp(kind, "quota")) { quota_left = arg < 0 ? 0 : arg; continue; }
                if (en.kind != K_NONE) plan[plan_len++] = en;
            }
            active = 1;
        }
    }
}

static int path_tracked(const char *path) {
    if (!active || !path) return 0;
    if (path[0] != '/') return 1;
    if (root && root_len > 0 && !strncmp(path, root, root_len)) return 1;
    return 0;
}

static struct entry *lookup(long idx) {
    for (int i = 0; i < plan_len; i++)
        if (plan[i].idx == idx && plan[i].kind != K_STATSIZE && plan[i].kind != K_STATERR) return &plan[i];
    return NULL;
}

static struct entry *lookup_stat(long idx) {
    for (int i = 0; i < plan_len; i++)
        if (plan[i].idx == idx && (plan[i].kind == K_STATSIZE || plan[i].kind == K_STATERR)) return &plan[i];
    return NULL;
}

static void trace(long idx, const char *call, int fd, const char *path, long req, long res, int err, const char *fault) {
    if (trace_fd < 0) return;
    if (++trace_lines > MAX_TRACE_LINES) return; /* a spinning SUT must not fill the disk with trace */
    char line[768];
    int n = snprintf(line, sizeof line, "%ld %s %d %s %ld %ld %d %s\n", idx, call, fd, path ? path : "-", req, res, err, fault ? fault : "-");
    if (n > 0) raw_write_all(trace_fd, line, (size_t)(n < (int)sizeof line ? n : (int)sizeof line - 1));
}

static void crash_now(long idx, const char *call, int fd, const char *path, long req) {
    trace(idx, call, fd, path, req, -1, 0, "crash");
    _exit(137);
}

/* ---- S1: entropy ---------------------------------------------------------------------- */

/* A program may compute in several threads (one per energy carrier, say). Each thread gets an entropy stream of its
 * own, named by its place in the tree of thread creations (parent's name, index among the parent's children), so that
 * the hash keys of every thread are decided by VERIF_ENTROPY and not by which thread asks first. The main thread
 * keeps the stream it always had. */
static __thread uint64_t t_name = 0;     /* 0: main thread */
static __thread uint64_t t_children = 0; /* threads created by this one so far */
static __thread uint64_t t_state = 0;
static __thread int t_seeded = 0;
static int (*real_pthread_create)(pthread_t *, const pthread_attr_t *, void *(*)(void *), void *) = NULL;

struct tramp {
    void *(*fn)(void *);
    void *arg;
    uint64_t name;
};

static void *trampoline(void *p) {
    struct tramp t = *(struct tramp *)p;
    free(p);
    t_name = t.name;
    return t.fn(t.arg);
}

int pthread_create(pthread_t *th, const pthread_attr_t *attr, void *(*fn)(void *), void *arg) {
    if (!real_pthread_create) real_pthread_create = dlsym(RTLD_NEXT, "pthread_create");
    struct tramp *t = malloc(sizeof *t);
    if (!t) return real_pthread_create(th, attr, fn, arg);
    uint64_t mixer = t_name * 0x9E3779B97F4A7C15ULL + (++t_children);
    t->fn = fn;
    t->arg = arg;
    t->name = splitmix(&mixer) | 1; /* never 0 */
    int r = real_pthread_create(th, attr, trampoline, t);
    if (r != 0) free(t);
    return r;
}

ssize_t getrandom(void *buf, size_t len, unsigned int flags) {
    init();
    if (!entropy_on) {
        if (real_getrandom) return real_getrandom(buf, len, flags);
        return syscall(SYS_getrandom, buf, len, flags);
    }
    uint64_t *state = &entropy_state;
    if (t_name != 0) {
        if (!t_seeded) {
            const char *e = getenv("VERIF_ENTROPY");
            t_state = (e ? strtoull(e, NULL, 10) : 0) ^ 0xE17A0F5C3B2D9A41ULL ^ t_name;
            t_seeded = 1;
        }
        state = &t_state;
    }
    unsigned char *p = buf;
    size_t i = 0;
    while (i < len) {
        uint64_t v = splitmix(state);
        for (int k = 0; k < 8 && i < len; k++, i++) p[i] = (unsigned char)(v >> (8 * k));
    }
    return (ssize_t)len;
}

/* ---- S3: tracked file system calls ------------------------------------------------------ */

static int do_open(const char *call, int dirfd, const char *path, int flags, mode_t mode, int use64) {
    init();
    if (!path_tracked(path) || (dirfd != AT_FDCWD && path[0] != '/')) {
        if (dirfd != AT_FDCWD || !strcmp(call, "openat")) return real_openat(dirfd, path, flags, mode);
        return use64 ? real_open64(path, flags, mode) : real_open(path, flags, mode);
    }
    long idx = call_index++;
    struct entry *en = lookup(idx);
    if (en) {
        if (en->kind == K_CRASH) crash_now(idx, call, -1, path, flags);
        if (en->kind == K_EINTR || en->kind == K_ERR) {
            int e = en->kind == K_EINTR ? EINTR : (int)en->arg;
            trace(idx, call, -1, path, flags, -1, e, en->kind == K_EINTR ? "eintr" : "err");
            errno = e;
            return -1;
        }
    }
    int fd = real_openat(AT_FDCWD, path, flags | (use64 ? O_LARGEFILE : 0), mode);
    int e = errno;
    if (fd >= 0 && fd < MAX_FD) tracked[fd] = 1;
    trace(idx, call, fd, path, flags, fd, fd < 0 ? e : 0, NULL);
    errno = e;
    return fd;
}

int open(const char *path, int flags, ...) {
    mode_t mode = 0;
    if (flags & (O_CREAT | O_TMPFILE)) {
        va_list ap;
        va_start(ap, flags);
        mode = (mode_t)va_arg(ap, int);
        va_end(ap);
    }
    return do_open("open", AT_FDCWD, path, flags, mode, 0);
}

int open64(const char *path, int flags, ...) {
    mode_t mode = 0;
    if (flags & (O_CREAT | O_TMPFILE)) {
        va_list ap;
        va_start(ap, flags);
        mode = (mode_t)va_arg(ap, int);
        va_end(ap);
    }
    return do_open("open", AT_FDCWD, path, flags, mode, 1);
}

int openat(int dirfd, const char *path, int flags, ...) {
    mode_t mode = 0;
    if (flags & (O_CREAT | O_TMPFILE)) {
        va_list ap;
        va_start(ap, flags);
        mode = (mode_t)va_arg(ap, int);
        va_end(ap);
    }
    return do_open("openat", dirfd, path, flags, mode, 0);
}

/* Decision for a tracked read-like call: -1 fail (errno in *err), 0 with *fault == "eof" premature end, else count to pass on */
static long read_decision(long idx, const char *call, int fd, size_t count, const char **fault, int *err) {
    struct entry *en = lookup(idx);
    *fault = NULL;
    if (at_eof[fd]) {
        *fault = "eof";
        return 0;
    }
    if (en) {
        if (en->kind == K_CRASH) crash_now(idx, call, fd, NULL, (long)count);
        if (en->kind == K_EINTR || en->kind == K_ERR) {
            *err = en->kind == K_EINTR ? EINTR : (int)en->arg;
            *fault = en->kind == K_EINTR ? "eintr" : "err";
            return -1;
        }
        if (en->kind == K_EOF) {
            /* premature end of file: the file was cut short after it was opened */
            at_eof[fd] = 1;
            *fault = "eof";
            return 0;
        }
        if (en->kind == K_SHORT && en->arg >= 1 && (size_t)en->arg < count) {
            *fault = "short";
            return en->arg;
        }
    }
    return (long)count;
}

ssize_t read(int fd, void *buf, size_t count) {
    init();
    if (fd < 0 || fd >= MAX_FD || !tracked[fd]) return real_read(fd, buf, count);
    long idx = call_index++;
    const char *fault = NULL;
    int ferr = 0;
    long want = read_decision(idx, "read", fd, count, &fault, &ferr);
    if (want < 0 || (fault && !strcmp(fault, "eof"))) {
        trace(idx, "read", fd, NULL, (long)count, want < 0 ? -1 : 0, want < 0 ? ferr : 0, fault);
        if (want < 0) errno = ferr;
        return want < 0 ? -1 : 0;
    }
    ssize_t r = real_read(fd, buf, (size_t)want);
    int e = errno;
    /* a shortened read only counts as delivered if it actually returned fewer bytes than were available */
    trace(idx, "read", fd, NULL, (long)count, (long)r, r < 0 ? e : 0, (fault && r == (ssize_t)want) ? fault : NULL);
    errno = e;
    return r;
}

ssize_t pread64(int fd, void *buf, size_t count, off_t off) {
    init();
    if (fd < 0 || fd >= MAX_FD || !tracked[fd]) return real_pread(fd, buf, count, off);
    long idx = call_index++;
    const char *fault = NULL;
    int ferr = 0;
    long want = read_decision(idx, "read", fd, count, &fault, &ferr);
    if (want < 0 || (fault && !strcmp(fault, "eof"))) {
        trace(idx, "read", fd, NULL, (long)count, want < 0 ? -1 : 0, want < 0 ? ferr : 0, fault);
        if (want < 0) errno = ferr;
        return want < 0 ? -1 : 0;
    }
    ssize_t r = real_pread(fd, buf, (size_t)want, off);
    int e = errno;
    trace(idx, "read", fd, NULL, (long)count, (long)r, r < 0 ? e : 0, (fault && r == (ssize_t)want) ? fault : NULL);
    errno = e;
    return r;
}

ssize_t pread(int fd, void *buf, size_t count, off_t off) { return pread64(fd, buf, count, off); }

ssize_t readv(int fd, const struct iovec *iov, int iovcnt) {
    init();
    if (fd < 0 || fd >= MAX_FD || !tracked[fd]) return real_readv(fd, iov, iovcnt);
    size_t count = 0;
    for (int i = 0; i < iovcnt; i++) count += iov[i].iov_len;
    long idx = call_index++;
    const char *fault = NULL;
    int ferr = 0;
    long want = read_decision(idx, "read", fd, count, &fault, &ferr);
    if (want < 0 || (fault && !strcmp(fault, "eof"))) {
        trace(idx, "read", fd, NULL, (long)count, want < 0 ? -1 : 0, want < 0 ? ferr : 0, fault);
        if (want < 0) errno = ferr;
        return want < 0 ? -1 : 0;
    }
    ssize_t done = 0;
    int e = 0;
    for (int i = 0; i < iovcnt && done < want; i++) {
        size_t n = iov[i].iov_len;
        if ((long)n > want - done) n = (size_t)(want - done);
        if (n == 0) continue;
        ssize_t r = real_read(fd, iov[i].iov_base, n);
        if (r < 0) {
            e = errno;
            if (done == 0) done = -1;
            break;
        }
        done += r;
        if ((size_t)r < n) break;
    }
    trace(idx, "read", fd, NULL, (long)count, (long)done, done < 0 ? e : 0, (fault && done == want) ? fault : NULL);
    errno = e;
    return done;
}

/* Decision for a tracked write-like call of `count` bytes: returns -1 (fail, errno in *err), or the number of
 * bytes to pass on (possibly shortened). */
static long write_decision(long idx, const char *call, int fd, size_t count, const char **fault, int *err) {
    struct entry *en = lookup(idx);
    long want = (long)count;
    *fault = NULL;
    if (en) {
        if (en->kind == K_CRASH) crash_now(idx, call, fd, NULL, (long)count);
        if (en->kind == K_EINTR || en->kind == K_ERR) {
            *err = en->kind == K_EINTR ? EINTR : (int)en->arg;
            *fault = en->kind == K_EINTR ? "eintr" : "err";
            /* a write to a pipe whose reader has gone: the kernel also sends SIGPIPE (ignored by a Rust program
             * unless it resets the disposition) */
            if (en->kind == K_ERR && en->arg == EPIPE) raise(SIGPIPE);
            return -1;
        }
        if (en->kind == K_SHORT && en->arg >= 1 && (size_t)en->arg < count) {
            want = en->arg;
            *fault = "short";
        }
    }
    if (quota_left >= 0 && count > 0) {
        if (disk_full || quota_left == 0) {
            disk_full = 1;
            *err = ENOSPC;
            *fault = "err";
            return -1;
        }
        if (want > quota_left) {
            want = quota_left;
            *fault = "short";
            disk_full = 1;
        }
        quota_left -= want;
    }
    return want;
}

ssize_t write(int fd, const void *buf, size_t count) {
    init();
    if (fd < 0 || fd >= MAX_FD || !tracked[fd]) return real_write(fd, buf, count);
    long idx = call_index++;
    const char *fault = NULL;
    int ferr = 0;
    long want = write_decision(idx, "write", fd, count, &fault, &ferr);
    if (want < 0) {
        trace(idx, "write", fd, NULL, (long)count, -1, ferr, fault);
        errno = ferr;
        return -1;
    }
    ssize_t r = real_write(fd, buf, (size_t)want);
    int e = errno;
    trace(idx, "write", fd, NULL, (long)count, (long)r, r < 0 ? e : 0, fault);
    errno = e;
    return r;
}

ssize_t pwrite64(int fd, const void *buf, size_t count, off_t off) {
    init();
    if (fd < 0 || fd >= MAX_FD || !tracked[fd]) return real_pwrite(fd, buf, count, off);
    long idx = call_index++;
    const char *fault = NULL;
    int ferr = 0;
    long want = write_decision(idx, "write", fd, count, &fault, &ferr);
    if (want < 0) {
        trace(idx, "write", fd, NULL, (long)count, -1, ferr, fault);
        errno = ferr;
        return -1;
    }
    ssize_t r = real_pwrite(fd, buf, (size_t)want, off);
    int e = errno;
    trace(idx, "write", fd, NULL, (long)count, (long)r, r < 0 ? e : 0, fault);
    errno = e;
    return r;
}

ssize_t pwrite(int fd, const void *buf, size_t count, off_t off) { return pwrite64(fd, buf, count, off); }

ssize_t writev(int fd, const struct iovec *iov, int iovcnt) {
    init();
    if (fd < 0 || fd >= MAX_FD || !tracked[fd]) return real_writev(fd, iov, iovcnt);
    size_t count = 0;
    for (int i = 0; i < iovcnt; i++) count += iov[i].iov_len;
    long idx = call_index++;
    const char *fault = NULL;
    int ferr = 0;
    long want = write_decision(idx, "write", fd, count, &fault, &ferr);
    if (want < 0) {
        trace(idx, "write", fd, NULL, (long)count, -1, ferr, fault);
        errno = ferr;
        return -1;
    }
    /* pass on the first `want` bytes, buffer by buffer */
    ssize_t done = 0;
    int e = 0;
    for (int i = 0; i < iovcnt && done < want; i++) {
        size_t n = iov[i].iov_len;
        if ((long)n > want - done) n = (size_t)(want - done);
        if (n == 0) continue;
        ssize_t r = real_write(fd, iov[i].iov_base, n);
        if (r < 0) {
            e = errno;
            if (done == 0) done = -1;
            break;
        }
        done += r;
        if ((size_t)r < n) break;
    }
    trace(idx, "write", fd, NULL, (long)count, (long)done, done < 0 ? e : 0, fault);
    errno = e;
    return done;
}

int close(int fd) {
    init();
    if (fd < 0 || fd >= MAX_FD || !tracked[fd]) return real_close(fd);
    long idx = call_index++;
    struct entry *en = lookup(idx);
    if (en && en->kind == K_CRASH) crash_now(idx, "close", fd, NULL, 0);
    tracked[fd] = 0;
    at_eof[fd] = 0;
    int r = real_close(fd);
    int e = errno;
    trace(idx, "close", fd, NULL, 0, r, r < 0 ? e : 0, NULL);
    errno = e;
    return r;
}

/* ---- status calls on tracked descriptors: an index space of their own ---------------------- */

static int stat_fault(int fd, long *size_out, int *err_out) {
    /* 0: no fault, 1: size lie, 2: error */
    long k = stat_index++;
    struct entry *en = lookup_stat(k);
    if (!en) {
        trace(call_index, "stat", fd, NULL, k, 0, 0, NULL);
        return 0;
    }
    if (en->kind == K_STATERR) {
        *err_out = (int)en->arg;
        trace(call_index, "stat", fd, NULL, k, -1, *err_out, "err");
        return 2;
    }
    *size_out = en->arg;
    trace(call_index, "stat", fd, NULL, k, en->arg, 0, "sizelie");
    return 1;
}

int statx(int dirfd, const char *path, int flags, unsigned int mask, struct statx *stx) {
    init();
    if (!real_statx) {
        errno = ENOSYS;
        return -1;
    }
    if (dirfd < 0 || dirfd >= MAX_FD || !tracked[dirfd] || !path || path[0] != 0) return real_statx(dirfd, path, flags, mask, stx);
    long size = 0;
    int err = 0;
    int f = stat_fault(dirfd, &size, &err);
    if (f == 2) {
        errno = err;
        return -1;
    }
    int r = real_statx(dirfd, path, flags, mask, stx);
    if (r == 0 && f == 1) stx->stx_size = (unsigned long long)size;
    return r;
}

int fstat(int fd, struct stat *st) {
    init();
    if (fd < 0 || fd >= MAX_FD || !tracked[fd]) return real_fstat ? real_fstat(fd, st) : (int)syscall(SYS_fstat, fd, st);
    long size = 0;
    int err = 0;
    int f = stat_fault(fd, &size, &err);
    if (f == 2) {
        errno = err;
        return -1;
    }
    int r = real_fstat ? real_fstat(fd, st) : (int)syscall(SYS_fstat, fd, st);
    if (r == 0 && f == 1) st->st_size = (off_t)size;
    return r;
}

int fstat64(int fd, struct stat64 *st) {
    init();
    if (fd < 0 || fd >= MAX_FD || !tracked[fd]) return real_fstat64 ? real_fstat64(fd, st) : (int)syscall(SYS_fstat, fd, st);
    long size = 0;
    int err = 0;
    int f = stat_fault(fd, &size, &err);
    if (f == 2) {
        errno = err;
        return -1;
    }
    int r = real_fstat64 ? real_fstat64(fd, st) : (int)syscall(SYS_fstat, fd, st);
    if (r == 0 && f == 1) st->st_size = (off_t)size;
    return r;
}

/* ---- calls the unchanged program does not make: traced, and failable with `err` ------------- */

static int other_fault(long idx, const char *call, int fd, const char *path) {
    struct entry *en = lookup(idx);
    if (en) {
        if (en->kind == K_CRASH) crash_now(idx, call, fd, path, 0);
        /* EINTR is not among the errors of rename/unlink/ftruncate, and Linux does not return it from fsync: a plan
         * entry that was meant for another call and lands here is not delivered */
        if (en->kind == K_ERR) {
            int e = (int)en->arg;
            trace(idx, call, fd, path, 0, -1, e, "err");
            errno = e;
            return 1;
        }
    }
    return 0;
}

int rename(const char *from, const char *to) {
    init();
    if (!path_tracked(from) && !path_tracked(to)) return real_rename(from, to);
    long idx = call_index++;
    if (other_fault(idx, "rename", -1, to)) return -1;
    int r = real_rename(from, to);
    int e = errno;
    trace(idx, "rename", -1, to, 0, r, r < 0 ? e : 0, NULL);
    errno = e;
    return r;
}

int unlink(const char *path) {
    init();
    if (!path_tracked(path)) return real_unlink(path);
    long idx = call_index++;
    if (other_fault(idx, "unlink", -1, path)) return -1;
    int r = real_unlink(path);
    int e = errno;
    trace(idx, "unlink", -1, path, 0, r, r < 0 ? e : 0, NULL);
    errno = e;
    return r;
}

int ftruncate64(int fd, off_t len) {
    init();
    if (fd < 0 || fd >= MAX_FD || !tracked[fd]) return real_ftruncate(fd, len);
    long idx = call_index++;
    if (other_fault(idx, "ftruncate", fd, NULL)) return -1;
    int r = real_ftruncate(fd, len);
    int e = errno;
    trace(idx, "ftruncate", fd, NULL, (long)len, r, r < 0 ? e : 0, NULL);
    errno = e;
    return r;
}

int ftruncate(int fd, off_t len) { return ftruncate64(fd, len); }

int fsync(int fd) {
    init();
    if (fd < 0 || fd >= MAX_FD || !tracked[fd]) return real_fsync(fd);
    long idx = call_index++;
    if (other_fault(idx, "fsync", fd, NULL)) return -1;
    int r = real_fsync(fd);
    int e = errno;
    trace(idx, "fsync", fd, NULL, 0, r, r < 0 ? e : 0, NULL);
    errno = e;
    return r;
}

int fdatasync(int fd) {
    init();
    if (fd < 0 || fd >= MAX_FD || !tracked[fd]) return real_fdatasync(fd);
    long idx = call_index++;
    if (other_fault(idx, "fsync", fd, NULL)) return -1;
    int r = real_fdatasync(fd);
    int e = errno;
    trace(idx, "fsync", fd, NULL, 0, r, r < 0 ? e : 0, NULL);
    errno = e;
    return r;
}
